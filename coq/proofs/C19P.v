(* C19P.v — proofs for C19 (handshake, invitations, meeting tokens). *)
From DV Require Import Handshake Run_C19.
From Coq Require Import Lia.
Local Open Scope N_scope.

(* ================================================================ meeting tokens *)
Section TokenSym.
  Variables (sec pubk shared tok : Type).
  Variable pub_of : sec -> pubk.
  Variable dh : sec -> pubk -> shared.
  Variable h_shared : shared -> tok.
  Variable h_self : sec -> tok.
  Variable pubk_eqb : pubk -> pubk -> bool.
  Hypothesis pubk_eqb_eq : forall a b, pubk_eqb a b = true <-> a = b.
  Hypothesis dh_comm : forall a b, dh a (pub_of b) = dh b (pub_of a).       (* Diffie-Hellman *)

  (* both sides derive the same token — provided two secrets with one public key are one secret *)
  Theorem meeting_token_sym : forall a b, (pub_of a = pub_of b -> a = b) ->
    meeting_token sec pubk shared tok pub_of dh h_shared h_self pubk_eqb a (pub_of b) =
    meeting_token sec pubk shared tok pub_of dh h_shared h_self pubk_eqb b (pub_of a).
  Proof.
    intros a b Inj. unfold meeting_token.
    destruct (pubk_eqb (pub_of b) (pub_of a)) eqn:E1; destruct (pubk_eqb (pub_of a) (pub_of b)) eqn:E2.
    - apply pubk_eqb_eq in E2. rewrite (Inj E2). reflexivity.
    - apply pubk_eqb_eq in E1. symmetry in E1. apply pubk_eqb_eq in E1. congruence.
    - apply pubk_eqb_eq in E2. symmetry in E2. apply pubk_eqb_eq in E2. congruence.
    - rewrite dh_comm. reflexivity.
  Qed.
End TokenSym.

Lemma token_eqb_eq : forall a b, token_eqb a b = true <-> a = b.
Proof.
  intros [x|x1 x2|x|] [y|y1 y2|y|]; cbn [token_eqb]; split; intro H; try discriminate; try reflexivity.
  - apply N.eqb_eq in H. congruence.
  - inversion H. apply N.eqb_refl.
  - apply andb_true_iff in H. destruct H as [H1 H2]. apply N.eqb_eq in H1, H2. congruence.
  - inversion H. rewrite !N.eqb_refl. reflexivity.
  - apply N.eqb_eq in H. congruence.
  - inversion H. apply N.eqb_refl.
Qed.

Lemma token_of_sym : forall a b, (s_pub a = s_pub b -> s_bytes a = s_bytes b) ->
  token_of a (s_pub b) = token_of b (s_pub a).
Proof.
  intros a b Inj. unfold token_of, meeting_token, dh_pair. cbn [fst snd].
  rewrite (N.eqb_sym (s_pub a) (s_pub b)).
  destruct (N.eqb (s_pub b) (s_pub a)) eqn:E.
  - apply N.eqb_eq in E. rewrite (Inj (eq_sym E)). reflexivity.
  - rewrite (N.min_comm (s_pub a)), (N.max_comm (s_pub a)). reflexivity.
Qed.

(* refuted at full strength: two byte strings that clamp to the same scalar *)
Lemma token_sym_refuted :
  let a := {| s_bytes := 1; s_pub := 7 |} in let b := {| s_bytes := 2; s_pub := 7 |} in
  token_of a (s_pub b) <> token_of b (s_pub a).
Proof. cbv. discriminate. Qed.

(* in the idealised token space (no 56-bit collisions) tokens tell pairs of public keys apart *)
Lemma token_of_pair : forall a b c d,
  (forall x y : secret, In x [a; c] -> In y [a; c] -> s_bytes x = s_bytes y -> s_pub x = s_pub y) ->
  token_of a (s_pub b) = token_of c (s_pub d) ->
  (N.min (s_pub a) (s_pub b), N.max (s_pub a) (s_pub b)) = (N.min (s_pub c) (s_pub d), N.max (s_pub c) (s_pub d)).
Proof.
  intros a b c d F H. unfold token_of, meeting_token, dh_pair in H. cbn [fst snd] in H.
  destruct (N.eqb (s_pub b) (s_pub a)) eqn:E1; destruct (N.eqb (s_pub d) (s_pub c)) eqn:E2; try discriminate H.
  - apply N.eqb_eq in E1, E2. inversion H as [Hb].
    assert (s_pub a = s_pub c) by (apply F; [left; reflexivity | right; left; reflexivity | exact Hb]).
    rewrite E1, E2, H0. reflexivity.
  - inversion H. reflexivity.
Qed.

(* ================================================================ handshake *)
Lemma zn_inj : forall a b, zn a = zn b -> a = b.
Proof. unfold zn. intros a b H. lia. Qed.

(* accepted => the remote proved, on THIS challenge, the key that is then bound, reported and served *)
Theorem auth_holds : forall ch lk t r ev es,
  init_connection ch lk t r ev = (ROkTrue, es) ->
  exists a, r = Ans a /\ proof_ok ch a = true /\ peer_row_ok a = true /\ entitled ch t r = Some (a_key a) /\
            In (EBind (a_key a)) es /\
            (forall k, In (EBind k) es \/ In (MInviteAccepted k) es \/ In (MConnected k) es -> k = a_key a).
Proof.
  intros ch lk t r ev es H. destruct r as [|a]; [discriminate H|].
  exists a. split; [reflexivity|].
  unfold init_connection in H.
  destruct (proof_ok ch a) eqn:P; cbn [negb] in H; [|discriminate H].
  destruct (peer_row_ok a) eqn:V; cbn [negb] in H; [|discriminate H].
  split; [reflexivity|]. split; [reflexivity|].
  assert (Ent0 : (match a_sig_by a with Some s => N.eqb s (a_key a) | None => false end)
                 && N.eqb (a_sig_over a) ch && negb (a_room a) && a_entity_ok a && a_rowsig_ok a && a_pubkey_ok a = true).
  { unfold proof_ok in P. unfold peer_row_ok in V.
    destruct (a_sig_by a) as [s|]; [|discriminate P].
    apply andb_true_iff in P. destruct P as [P1 P2]. rewrite P1, P2. cbn [andb].
    exact V. }
  unfold entitled. rewrite Ent0. cbn [andb].
  destruct t as [expected|inv|inv ap signer].
  - destruct (N.eqb expected (a_key a)) eqn:E; [|discriminate H].
    destruct (N.eqb lk (a_key a)); destruct ev; inversion H; subst es; cbn [In];
      (split; [reflexivity|]); (split; [left; reflexivity|]);
      intros k [K|[K|K]]; repeat (destruct K as [K|K]; try discriminate K; try (inversion K; reflexivity)); destruct K.
  - destruct ev; inversion H; subst es; cbn [app In];
      (split; [reflexivity|]); (split; [left; reflexivity|]);
      intros k [K|[K|K]]; repeat (destruct K as [K|K]; try discriminate K; try (inversion K; reflexivity)); destruct K.
  - destruct signer as [s|]; [|discriminate H].
    destruct (N.eqb s (a_key a)) eqn:E; [|discriminate H].
    destruct ev; inversion H; subst es; cbn [app In];
      (split; [reflexivity|]); (split; [left; reflexivity|]);
      intros k [K|[K|K]]; repeat (destruct K as [K|K]; try discriminate K; try (inversion K; reflexivity)); destruct K.
Qed.

(* a remote that is not entitled gets nothing: no key bound, no event, no message, no success *)
Theorem fail_holds : forall ch lk t r ev,
  entitled ch t r = None ->
  snd (init_connection ch lk t r ev) = [] /\ fst (init_connection ch lk t r ev) <> ROkTrue.
Proof.
  intros ch lk t r ev H. destruct r as [|a]; [split; [reflexivity | discriminate]|].
  unfold entitled in H. unfold init_connection, proof_ok, peer_row_ok.
  destruct (a_sig_by a) as [s|]; cbn [andb negb] in *; [|split; [reflexivity | discriminate]].
  destruct (N.eqb s (a_key a)); cbn [andb negb] in *; [|split; [reflexivity | discriminate]].
  destruct (N.eqb (a_sig_over a) ch); cbn [andb negb] in *; [|split; [reflexivity | discriminate]].
  destruct (a_room a); cbn [andb negb] in *; [split; [reflexivity | discriminate]|].
  destruct (a_entity_ok a); cbn [andb negb] in *; [|split; [reflexivity | discriminate]].
  destruct (a_rowsig_ok a); cbn [andb negb] in *; [|split; [reflexivity | discriminate]].
  destruct (a_pubkey_ok a); cbn [andb negb] in *; [|split; [reflexivity | discriminate]].
  destruct t as [expected|inv|inv ap signer].
  - destruct (N.eqb expected (a_key a)); [discriminate H | split; [reflexivity | discriminate]].
  - discriminate H.
  - destruct signer as [s'|]; [|split; [reflexivity | discriminate]].
    destruct (N.eqb s' (a_key a)); [discriminate H | split; [reflexivity | discriminate]].
Qed.

(* the property's oracle holds on every observation the model can produce (any remote behaviour) *)
Theorem handshake_spec : forall ch lk t r ev,
  spec_handshake ch t r (obs_handshake (init_connection ch lk t r ev)) = true.
Proof.
  intros ch lk t r ev. unfold spec_handshake.
  destruct (entitled ch t r) as [k|] eqn:Ent.
  - (* entitled: whatever happens is for key k *)
    destruct r as [|a]; [discriminate Ent|].
    assert (Hk : k = a_key a).
    { unfold entitled in Ent. destruct (_ && _) in Ent; [inversion Ent; reflexivity | discriminate Ent]. }
    subst k. clear Ent.
    unfold init_connection.
    destruct (negb (proof_ok ch a)); [reflexivity|].
    destruct (negb (peer_row_ok a)); [reflexivity|].
    destruct t as [expected|inv|inv ap signer].
    + destruct (N.eqb expected (a_key a)); [|reflexivity].
      destruct (N.eqb lk (a_key a)); destruct ev; cbv -[zn Z.eqb orb andb a_key]; rewrite ?Z.eqb_refl, ?orb_true_r; reflexivity.
    + destruct ev; cbv -[zn Z.eqb orb andb a_key]; rewrite ?Z.eqb_refl, ?orb_true_r; reflexivity.
    + destruct signer as [s|]; [|reflexivity].
      destruct (N.eqb s (a_key a)); [|reflexivity].
      destruct ev; cbv -[zn Z.eqb orb andb a_key]; rewrite ?Z.eqb_refl, ?orb_true_r; reflexivity.
  - destruct (fail_holds ch lk t r ev Ent) as [F1 F2].
    destruct (init_connection ch lk t r ev) as [res es]. cbn [fst snd] in F1, F2. subst es.
    destruct res; try (exfalso; apply F2; reflexivity); reflexivity.
Qed.

(* ================================================================ several connections: fresh nonces *)
Lemma hs_short : forall ch lk t r ev,
  spec_hs_with (entitled ch t r)
    [result_code (fst (init_connection ch lk t r ev)); bound_of (snd (init_connection ch lk t r ev)); 1; 0]%Z = true.
Proof.
  intros ch lk t r ev.
  destruct (entitled ch t r) as [k|] eqn:Ent.
  - destruct r as [|a]; [discriminate Ent|].
    assert (Hk : k = a_key a).
    { unfold entitled in Ent. destruct (_ && _) in Ent; [inversion Ent; reflexivity | discriminate Ent]. }
    subst k. clear Ent.
    unfold init_connection.
    destruct (negb (proof_ok ch a)); [reflexivity|].
    destruct (negb (peer_row_ok a)); [reflexivity|].
    destruct t as [expected|inv|inv ap signer].
    + destruct (N.eqb expected (a_key a)); [|reflexivity].
      destruct (N.eqb lk (a_key a)); destruct ev; cbv -[zn Z.eqb orb andb a_key]; rewrite ?Z.eqb_refl, ?orb_true_r; reflexivity.
    + destruct ev; cbv -[zn Z.eqb orb andb a_key]; rewrite ?Z.eqb_refl, ?orb_true_r; reflexivity.
    + destruct signer as [s|]; [|reflexivity].
      destruct (N.eqb s (a_key a)); [|reflexivity].
      destruct ev; cbv -[zn Z.eqb orb andb a_key]; rewrite ?Z.eqb_refl, ?orb_true_r; reflexivity.
  - destruct (fail_holds ch lk t r ev Ent) as [F1 F2].
    destruct (init_connection ch lk t r ev) as [res es]. cbn [fst snd] in *. subst es.
    destruct res; try (exfalso; apply F2; reflexivity); reflexivity.
Qed.

Lemma nodup_n_NoDup : forall l, NoDup l -> nodup_n l = true.
Proof.
  induction 1 as [|x l Hx _ IH]; [reflexivity|]. cbn [nodup_n]. rewrite IH, andb_true_r.
  destruct (existsb (N.eqb x) l) eqn:E; [|reflexivity].
  apply existsb_exists in E. destruct E as [y [Hy Exy]]. apply N.eqb_eq in Exy. subst y. contradiction.
Qed.

(* the accepted answer signs THIS connection's nonce; with pairwise distinct nonces an answer
   recorded on another connection is therefore never accepted *)
Theorem replay_rejected : forall nonces all i j c,
  NoDup nonces -> (i < length nonces)%nat -> sc_remote c = SReplay j -> j <> i ->
  fst (conn_result nonces all i c) <> ROkTrue.
Proof.
  intros nonces all i j c ND Hi Hr Ne Acc. unfold conn_result in Acc.
  destruct (nth_error nonces i) as [n|] eqn:Ni; [|discriminate Acc].
  destruct (init_connection n (sc_local c) (sc_tt c) (sremote_of nonces all i c) (sc_ev c)) as [res es] eqn:IC.
  cbn [fst] in Acc. subst res.
  destruct (auth_holds _ _ _ _ _ _ IC) as [a [Ra [P _]]].
  unfold sremote_of in Ra. rewrite Hr in Ra.
  destruct (nth_error all j) as [cj|]; [|discriminate Ra].
  destruct (nth_error nonces j) as [nj|] eqn:Nj; [|discriminate Ra].
  destruct (sc_remote cj) as [|a'|]; try discriminate Ra. inversion Ra; subst a.
  unfold proof_ok, over in P. cbn [a_sig_by a_key a_sig_over] in P.
  destruct (a_sig_by a'); [|discriminate P]. apply andb_true_iff in P. destruct P as [_ P]. apply N.eqb_eq in P. subst nj.
  apply Ne. symmetry. rewrite NoDup_nth_error in ND. apply ND; [exact Hi | congruence].
Qed.

(* C19_auth over a stream of nonces: accepted => the answer signs the nonce of THIS connection (and
   everything auth_holds says); and, nonces being pairwise distinct, it is not a recorded answer *)
Theorem auth_fresh : forall nonces all i c es,
  NoDup nonces -> conn_result nonces all i c = (ROkTrue, es) ->
  exists n a, nth_error nonces i = Some n /\ sremote_of nonces all i c = Ans a /\
              proof_ok n a = true /\ a_sig_over a = n /\ peer_row_ok a = true /\
              entitled n (sc_tt c) (sremote_of nonces all i c) = Some (a_key a) /\ In (EBind (a_key a)) es /\
              (forall k, In (EBind k) es \/ In (MInviteAccepted k) es \/ In (MConnected k) es -> k = a_key a) /\
              (forall j, sc_remote c = SReplay j -> j = i).
Proof.
  intros nonces all i c es ND H.
  assert (Hi : (i < length nonces)%nat).
  { unfold conn_result in H. destruct (nth_error nonces i) eqn:E; [|discriminate H]. apply nth_error_Some. congruence. }
  pose proof (replay_rejected nonces all i) as RR.
  unfold conn_result in H, RR. destruct (nth_error nonces i) as [n|] eqn:Ni; [|discriminate H].
  destruct (auth_holds _ _ _ _ _ _ H) as [a [Ra [P [V [E [B U]]]]]].
  exists n, a. repeat split; try assumption.
  - unfold proof_ok in P. destruct (a_sig_by a); [|discriminate P]. apply andb_true_iff in P. destruct P as [_ P]. apply N.eqb_eq. exact P.
  - intros j Hj. destruct (Nat.eq_dec j i) as [|Ne]; [assumption|]. exfalso.
    apply (RR j c ND Hi Hj Ne). rewrite H. reflexivity.
Qed.

Lemma conn_ok_run : forall nonces all i c, NoDup nonces -> (i < length nonces)%nat ->
  conn_ok nonces all i c (result_code (fst (conn_result nonces all i c))) (bound_of (snd (conn_result nonces all i c))) = true.
Proof.
  intros nonces all i c ND Hi. unfold conn_ok.
  pose proof (replay_rejected nonces all i) as RR.
  unfold conn_result in *.
  destruct (nth_error nonces i) as [n|] eqn:Ni; [|apply nth_error_None in Ni; lia].
  rewrite hs_short. cbn [andb].
  destruct (sc_remote c) as [|a|j] eqn:R; try reflexivity.
  destruct (Nat.eqb j i) eqn:E; [reflexivity|]. apply Nat.eqb_neq in E. cbn [orb].
  specialize (RR j c ND Hi R E).
  destruct (fst (init_connection n (sc_local c) (sc_tt c) (sremote_of nonces all i c) (sc_ev c))); try reflexivity.
  exfalso. apply RR. reflexivity.
Qed.

Lemma spec_conns_run : forall nonces all cs i, NoDup nonces -> (i + length cs <= length nonces)%nat ->
  spec_conns nonces all i cs (run_conns nonces all i cs) = true.
Proof.
  intros nonces all. induction cs as [|c cs IH]; intros i ND Hl; [reflexivity|].
  cbn [length] in Hl. cbn [run_conns spec_conns]. rewrite conn_ok_run by (try assumption; lia). cbn [andb].
  apply IH; [exact ND | lia].
Qed.

Theorem session_spec : forall nonces conns, length nonces = length conns -> NoDup nonces ->
  spec_session conns (map zn nonces ++ run_conns nonces conns 0 conns) = true.
Proof.
  intros nonces conns L ND. unfold spec_session.
  assert (Lm : length (map zn nonces) = length conns) by (rewrite map_length; exact L).
  rewrite <- Lm. rewrite firstn_app, Nat.sub_diag, firstn_all. cbn [firstn]. rewrite app_nil_r.
  rewrite skipn_app, Nat.sub_diag, skipn_all. cbn [skipn app].
  assert (Id : map Z.to_N (map zn nonces) = nonces).
  { rewrite map_map. rewrite <- (map_id nonces) at 2. apply map_ext. intro x. unfold zn. apply N2Z.id. }
  rewrite Id. rewrite map_length, Nat.eqb_refl, (nodup_n_NoDup _ ND). cbn [andb].
  apply spec_conns_run; [exact ND | lia].
Qed.

(* ================================================================ invitations *)
(* number of entries that register invitation i *)
Definition cntr (i : N) (l : list (token * ttype)) : nat := length (filter (registered i) l).

Lemma mem_n_cons : forall x y l, mem_n x (y :: l) = N.eqb x y || mem_n x l.
Proof. reflexivity. Qed.
Lemma mem_n_drop : forall x y l, mem_n x (drop_n y l) = mem_n x l && negb (N.eqb x y).
Proof.
  intros x y. induction l as [|z l IH]; [reflexivity|].
  unfold drop_n in *. cbn [filter]. destruct (N.eqb z y) eqn:E; cbn [negb].
  - rewrite IH. rewrite mem_n_cons. apply N.eqb_eq in E. subst z.
    destruct (N.eqb x y); cbn [orb negb]; [rewrite !andb_false_r; reflexivity | reflexivity].
  - rewrite !mem_n_cons, IH. destruct (N.eqb x z) eqn:E2; cbn [orb]; [|reflexivity].
    apply N.eqb_eq in E2. subst z. rewrite E. reflexivity.
Qed.

Lemma remove_first_incl : forall tk p l e, In e (remove_first tk p l) -> In e l.
Proof.
  induction l as [|x l IH]; intros e H; cbn [remove_first] in H; [exact H|].
  destruct (token_eqb (fst x) tk && p (snd x)); [right; exact H|].
  destruct H as [H|H]; [left; exact H | right; apply IH; exact H].
Qed.

Lemma token_of_not_invite : forall s p inv, token_of s p <> TkInvite inv.
Proof. intros s p inv. unfold token_of, meeting_token. destruct (N.eqb p (s_pub s)); discriminate. Qed.

Lemma cntr_app : forall i l1 l2, cntr i (l1 ++ l2) = (cntr i l1 + cntr i l2)%nat.
Proof. intros. unfold cntr. rewrite filter_app, app_length. reflexivity. Qed.

Lemma cntr_pos : forall i l e, In e l -> registered i e = true -> (1 <= cntr i l)%nat.
Proof.
  intros i l e Hin Hr. unfold cntr.
  assert (X : In e (filter (registered i) l)) by (apply filter_In; split; assumption).
  destruct (filter (registered i) l); [destruct X | cbn; lia].
Qed.

Lemma existsb_cntr : forall i l, existsb (registered i) l = negb (Nat.eqb (cntr i l) 0).
Proof.
  intros i. induction l as [|e l IH]; [reflexivity|].
  unfold cntr in *. cbn [existsb filter]. destruct (registered i e); cbn [orb length]; [reflexivity | exact IH].
Qed.

Lemma registered_token : forall i e, registered i e = true -> fst e = TkInvite i.
Proof. intros i e H. unfold registered in H. apply andb_true_iff in H. apply token_eqb_eq. apply H. Qed.

Lemma registered_other : forall i j e, fst e = TkInvite j -> i <> j -> registered i e = false.
Proof.
  intros i j e H Ne. unfold registered. rewrite H. cbn [token_eqb].
  destruct (N.eqb j i) eqn:E; [apply N.eqb_eq in E; congruence | reflexivity].
Qed.

Lemma remove_first_cntr_other : forall i j p l, i <> j -> cntr i (remove_first (TkInvite j) p l) = cntr i l.
Proof.
  intros i j p l Ne. induction l as [|e l IH]; [reflexivity|].
  cbn [remove_first]. destruct (token_eqb (fst e) (TkInvite j) && p (snd e)) eqn:E.
  - apply andb_true_iff in E. destruct E as [E _]. apply token_eqb_eq in E.
    unfold cntr. cbn [filter]. rewrite (registered_other i j e E Ne). reflexivity.
  - unfold cntr in *. cbn [filter]. destruct (registered i e); cbn [length]; [f_equal|]; exact IH.
Qed.

Lemma remove_first_cntr_dec : forall i p l,
  (forall e, token_eqb (fst e) (TkInvite i) && p (snd e) = true -> registered i e = true) ->
  (exists e, In e l /\ token_eqb (fst e) (TkInvite i) && p (snd e) = true) ->
  S (cntr i (remove_first (TkInvite i) p l)) = cntr i l.
Proof.
  intros i p l Sub. induction l as [|e l IH]; intros [x [Hin Hx]]; [destruct Hin|].
  cbn [remove_first]. destruct (token_eqb (fst e) (TkInvite i) && p (snd e)) eqn:E.
  - unfold cntr. cbn [filter]. rewrite (Sub e E). reflexivity.
  - destruct Hin as [Hin|Hin]; [subst x; rewrite E in Hx; discriminate|].
    unfold cntr in *. cbn [filter]. destruct (registered i e); cbn [length]; [f_equal|]; apply IH; exists x; split; assumption.
Qed.

(* the table and the reference set of pending invitations agree *)
Record agree (next total : N) (m : pm) (pending : list N) : Prop := {
  ag_under : forall e i, In e (pm_tokens m) -> fst e = TkInvite i -> registered i e = true;
  ag_placed : forall e, In e (pm_tokens m) -> (forall i, snd e = TOwned i -> fst e = TkInvite i) /\
                                             (forall i a s, snd e = TInvite i a s -> fst e = TkInvite i);
  ag_count : forall i, cntr i (pm_tokens m) = if mem_n i pending then 1%nat else 0%nat;
  ag_ids : forall i, mem_n i pending = true -> i < next \/ total < i }.

Lemma agree_unknown : forall next total m pending i k, agree next total m pending ->
  mem_n i pending = false -> get_token_type m (TkInvite i) k = None.
Proof.
  intros next total m pending i k A H. unfold get_token_type.
  destruct (find _ (pm_tokens m)) as [e|] eqn:F; [|reflexivity].
  apply find_some in F. destruct F as [Hin He]. apply andb_true_iff in He. destruct He as [He _].
  apply token_eqb_eq in He.
  pose proof (cntr_pos i _ e Hin (ag_under _ _ _ _ A e i Hin He)) as C.
  rewrite (ag_count _ _ _ _ A i), H in C. lia.
Qed.

Lemma agree_push_allowed : forall next total m pending s p k, agree next total m pending ->
  agree next total (push m (token_of s p) (TAllowed k)) pending.
Proof.
  intros next total m pending s p k A. constructor.
  - intros e i Hin He. unfold push in Hin. cbn [pm_tokens] in Hin. apply in_app_or in Hin.
    destruct Hin as [Hin|[Hin|[]]]; [eapply ag_under; eassumption|].
    subst e. cbn [fst] in He. exfalso. eapply token_of_not_invite. exact He.
  - intros e Hin. unfold push in Hin. cbn [pm_tokens] in Hin. apply in_app_or in Hin.
    destruct Hin as [Hin|[Hin|[]]]; [eapply ag_placed; eassumption|].
    subst e. cbn [snd]. split; intros; discriminate.
  - intros i. unfold push. cbn [pm_tokens]. rewrite cntr_app. rewrite (ag_count _ _ _ _ A i).
    unfold cntr at 1. cbn [filter]. unfold registered. cbn [snd is_owned is_invite orb]. rewrite andb_false_r. cbn [length]. lia.
  - apply (ag_ids _ _ _ _ A).
Qed.

(* consuming the pending invitation i ends it *)
Lemma agree_consume : forall next total m pending i p m',
  agree next total m pending ->
  (forall e, token_eqb (fst e) (TkInvite i) && p (snd e) = true -> registered i e = true) ->
  (exists e, In e (pm_tokens m) /\ token_eqb (fst e) (TkInvite i) && p (snd e) = true) ->
  pm_tokens m' = remove_first (TkInvite i) p (pm_tokens m) ->
  agree next total m' (drop_n i pending).
Proof.
  intros next total m pending i p m' A Sub Ex Hm'. constructor.
  - intros e j Hin He. rewrite Hm' in Hin. apply remove_first_incl in Hin. eapply ag_under; eassumption.
  - intros e Hin. rewrite Hm' in Hin. apply remove_first_incl in Hin. eapply ag_placed; eassumption.
  - intros j. rewrite Hm', mem_n_drop. destruct (N.eqb j i) eqn:E.
    + apply N.eqb_eq in E. subst j. rewrite andb_false_r.
      pose proof (remove_first_cntr_dec i p (pm_tokens m) Sub Ex) as D.
      pose proof (ag_count _ _ _ _ A i) as C. destruct (mem_n i pending); lia.
    + apply N.eqb_neq in E. rewrite remove_first_cntr_other by exact E. cbn [negb]. rewrite andb_true_r.
      apply (ag_count _ _ _ _ A).
  - intros j Hj. rewrite mem_n_drop in Hj. apply andb_true_iff in Hj. apply (ag_ids _ _ _ _ A). apply Hj.
Qed.

(* THE invitation theorem: from any state that agrees with the reference set, every answer of the
   model passes the per-operation oracle (single use included) *)
Lemma spec_ops_run : forall total ops next m pending, agree next total m pending ->
  next + n_creates ops = N.succ total -> ops_ok next total ops = true ->
  spec_ops (pm_app m) pending ops (run_ops next m ops) = true.
Proof.
  intros total. induction ops as [|op ops IH]; intros next m pending A Hn Ok; [reflexivity|].
  cbn [run_ops].
  destruct op as [|b|tr k|tr p]; cbn [step].
  - (* create: rank next is not pending yet *)
    cbn [n_creates] in Hn. cbn [ops_ok] in Ok.
    cbn [spec_ops op_ok pending_after andb]. unfold zn. rewrite N2Z.id.
    change (pm_app m) with (pm_app (create_invite m next)). apply IH; [|lia|exact Ok].
    assert (NP : mem_n next pending = false).
    { destruct (mem_n next pending) eqn:M; [|reflexivity]. destruct (ag_ids _ _ _ _ A next M); lia. }
    constructor.
    + intros e i Hin He. unfold create_invite, push in Hin. cbn [pm_tokens] in Hin. apply in_app_or in Hin.
      destruct Hin as [Hin|[Hin|[]]]; [eapply ag_under; eassumption|].
      subst e. cbn [fst] in He. inversion He; subst i. unfold registered. cbn [fst snd token_eqb is_owned]. rewrite N.eqb_refl. reflexivity.
    + intros e Hin. unfold create_invite, push in Hin. cbn [pm_tokens] in Hin. apply in_app_or in Hin.
      destruct Hin as [Hin|[Hin|[]]]; [eapply ag_placed; eassumption|].
      subst e. cbn [fst snd]. split; [intros i Hi; inversion Hi; reflexivity | intros; discriminate].
    + intros i. unfold create_invite, push. cbn [pm_tokens]. rewrite cntr_app, mem_n_cons. rewrite (ag_count _ _ _ _ A i).
      unfold cntr at 1. cbn [filter]. unfold registered. cbn [fst snd token_eqb is_owned is_invite]. rewrite orb_false_r, andb_diag.
      rewrite (N.eqb_sym next i). destruct (N.eqb i next) eqn:E; cbn [orb length].
      * apply N.eqb_eq in E. subst i. rewrite NP. reflexivity.
      * destruct (mem_n i pending); reflexivity.
    + intros i Hi. rewrite mem_n_cons in Hi. apply orb_true_iff in Hi. destruct Hi as [Hi|Hi].
      * apply N.eqb_eq in Hi. subst i. left. lia.
      * destruct (ag_ids _ _ _ _ A i Hi); [left; lia | right; assumption].
  - (* accept *)
    cbn [n_creates] in Hn.
    destruct b as [|inv app signer]; cbn [accept_invite].
    + cbn [spec_ops op_ok pending_after Z.eqb andb]. cbn [ops_ok] in Ok. apply IH; assumption.
    + cbn [ops_ok] in Ok. apply andb_true_iff in Ok. destruct Ok as [Oid Ok].
      destruct (N.eqb app (pm_app m)) eqn:E.
      * destruct (existsb (registered inv) (pm_tokens m)) eqn:X.
        -- (* already known: nothing changes, and it is pending *)
           cbn [spec_ops op_ok pending_after Z.eqb Pos.eqb]. rewrite E. cbn [andb].
           apply IH; [|exact Hn|exact Ok].
           assert (M : mem_n inv pending = true).
           { rewrite existsb_cntr in X. pose proof (ag_count _ _ _ _ A inv) as C.
             destruct (mem_n inv pending); [reflexivity|]. rewrite C in X. discriminate X. }
           constructor; try apply A.
           ++ intros i. rewrite mem_n_cons. rewrite (ag_count _ _ _ _ A i).
              destruct (N.eqb i inv) eqn:Ei; cbn [orb]; [|reflexivity].
              apply N.eqb_eq in Ei. subst i. rewrite M. reflexivity.
           ++ intros i Hi. rewrite mem_n_cons in Hi. apply orb_true_iff in Hi. destruct Hi as [Hi|Hi]; [|apply (ag_ids _ _ _ _ A); exact Hi].
              apply N.eqb_eq in Hi. subst i. apply (ag_ids _ _ _ _ A). exact M.
        -- (* registered now *)
           cbn [spec_ops op_ok pending_after Z.eqb Pos.eqb]. rewrite E. cbn [andb].
           change (pm_app m) with (pm_app (push m (TkInvite inv) (TInvite inv app signer))).
           apply IH; [|exact Hn|exact Ok].
           assert (NP : mem_n inv pending = false).
           { rewrite existsb_cntr in X. pose proof (ag_count _ _ _ _ A inv) as C.
             destruct (mem_n inv pending); [|reflexivity]. rewrite C in X. discriminate X. }
           constructor.
           ++ intros e i Hin He. unfold push in Hin. cbn [pm_tokens] in Hin. apply in_app_or in Hin.
              destruct Hin as [Hin|[Hin|[]]]; [eapply ag_under; eassumption|].
              subst e. cbn [fst] in He. inversion He; subst i. unfold registered. cbn [fst snd token_eqb is_owned is_invite]. rewrite N.eqb_refl. reflexivity.
           ++ intros e Hin. unfold push in Hin. cbn [pm_tokens] in Hin. apply in_app_or in Hin.
              destruct Hin as [Hin|[Hin|[]]]; [eapply ag_placed; eassumption|].
              subst e. cbn [fst snd]. split; [intros; discriminate | intros i a s Hi; inversion Hi; reflexivity].
           ++ intros i. unfold push. cbn [pm_tokens]. rewrite cntr_app, mem_n_cons. rewrite (ag_count _ _ _ _ A i).
              unfold cntr at 1. cbn [filter]. unfold registered. cbn [fst snd token_eqb is_owned is_invite]. cbn [orb]. rewrite andb_diag.
              rewrite (N.eqb_sym inv i). destruct (N.eqb i inv) eqn:Ei; cbn [orb length].
              ** apply N.eqb_eq in Ei. subst i. rewrite NP. reflexivity.
              ** destruct (mem_n i pending); reflexivity.
           ++ intros i Hi. rewrite mem_n_cons in Hi. apply orb_true_iff in Hi. destruct Hi as [Hi|Hi]; [|apply (ag_ids _ _ _ _ A); exact Hi].
              apply N.eqb_eq in Hi. subst i. apply orb_true_iff in Oid. destruct Oid as [O1|O1]; apply N.ltb_lt in O1; [left | right]; exact O1.
      * cbn [spec_ops op_ok pending_after Z.eqb andb]. apply IH; assumption.
  - (* lookup *)
    cbn [n_creates] in Hn. cbn [ops_ok] in Ok.
    destruct (lookup_obs (get_token_type m (tok_of_ref m tr) k)) as [a b] eqn:L.
    cbn [spec_ops]. rewrite (IH next m (pending_after pending (OLookup tr k) a b)) by (cbn [pending_after]; assumption).
    rewrite andb_true_r. cbn [op_ok]. apply andb_true_iff. split.
    + destruct (get_token_type m (tok_of_ref m tr) k) as [t|] eqn:G; [|inversion L; reflexivity].
      unfold get_token_type in G. destruct (find _ (pm_tokens m)) as [e|] eqn:F; [|discriminate G].
      inversion G; subst t. apply find_some in F. destruct F as [_ He]. apply andb_true_iff in He. destruct He as [_ He].
      destruct (snd e) as [q|i|i ap s]; cbn [lookup_obs] in L; inversion L; subst; try reflexivity.
      cbn [entry_matches] in He. apply N.eqb_eq in He. subst q. cbn [Z.eqb]. apply Z.eqb_refl.
    + destruct tr as [inv|q|]; try reflexivity. cbn [tok_of_ref] in L.
      destruct (mem_n inv pending) eqn:M; [reflexivity|].
      rewrite (agree_unknown _ _ _ _ inv k A M) in L. inversion L. reflexivity.
  - (* consume *)
    cbn [n_creates] in Hn. cbn [ops_ok] in Ok.
    destruct (get_token_type m (tok_of_ref m tr) (p_key p)) as [t|] eqn:G.
    2:{ cbn [lookup_obs fst spec_ops op_ok pending_after].
        assert (PA : pending_after pending (OConsume tr p) 0 0 = pending) by (destruct tr; reflexivity).
        cbn [pending_after] in PA. rewrite PA. rewrite (IH next m pending A Hn Ok). rewrite andb_true_r.
        destruct tr as [inv|q|]; try reflexivity. destruct (mem_n inv pending); reflexivity. }
    assert (Found : exists e, In e (pm_tokens m) /\ token_eqb (fst e) (tok_of_ref m tr) = true /\ snd e = t).
    { unfold get_token_type in G. destruct (find _ (pm_tokens m)) as [e|] eqn:F; [|discriminate G].
      inversion G. apply find_some in F. destruct F as [Hin He]. apply andb_true_iff in He.
      exists e. repeat split; [exact Hin | apply He]. }
    destruct Found as [e [Hin [Htk Ht]]]. apply token_eqb_eq in Htk.
    assert (Pend : forall inv, tr = RInv inv -> mem_n inv pending = true).
    { intros inv Etr. subst tr. destruct (mem_n inv pending) eqn:M; [reflexivity|].
      cbn [tok_of_ref] in G. rewrite (agree_unknown _ _ _ _ inv (p_key p) A M) in G. discriminate G. }
    destruct t as [k|j|j a s].
    + (* an allowed peer: nothing is consumed *)
      cbn [lookup_obs fst spec_ops op_ok pending_after].
      assert (PA : (match tr with RInv inv => if Z.eqb 0 1 then drop_n inv pending else pending | _ => pending end) = pending) by (destruct tr; reflexivity).
      rewrite PA. rewrite (IH next m pending A Hn Ok). rewrite andb_true_r.
      destruct tr as [inv|q|]; try reflexivity. rewrite (Pend inv eq_refl). reflexivity.
    + (* an owned invitation *)
      assert (Etk : tok_of_ref m tr = TkInvite j).
      { rewrite <- Htk. apply (proj1 (ag_placed _ _ _ _ A e Hin)). exact Ht. }
      assert (Etr : tr = RInv j).
      { destruct tr as [i|q|]; cbn [tok_of_ref] in Etk; [inversion Etk; reflexivity | exfalso; eapply token_of_not_invite; exact Etk | discriminate Etk]. }
      subst tr.
      set (m1 := push m (token_of (pm_secret m) (p_pub p)) (TAllowed (p_key p))).
      set (m' := {| pm_app := pm_app m1; pm_secret := pm_secret m1;
                    pm_tokens := remove_first (TkInvite j) (is_owned j) (pm_tokens m1) |}).
      assert (CC : invite_accepted m (TOwned j) p = Some m') by reflexivity.
      rewrite CC. cbn [lookup_obs fst spec_ops op_ok pending_after Z.eqb Pos.eqb]. rewrite (Pend j eq_refl). cbn [andb].
      change (pm_app m) with (pm_app m'). apply IH; [|exact Hn|exact Ok].
      apply (agree_consume next total m1 pending j (is_owned j) m').
      * unfold m1. apply agree_push_allowed. exact A.
      * intros x Hx. unfold registered. apply andb_true_iff in Hx. destruct Hx as [H1 H2]. rewrite H1, H2. reflexivity.
      * exists e. split; [unfold m1, push; cbn [pm_tokens]; apply in_or_app; left; exact Hin|].
        rewrite Htk, Ht. cbn [tok_of_ref token_eqb is_owned]. rewrite !N.eqb_refl. reflexivity.
      * reflexivity.
    + (* a received invitation *)
      assert (Etk : tok_of_ref m tr = TkInvite j).
      { rewrite <- Htk. eapply (proj2 (ag_placed _ _ _ _ A e Hin)). exact Ht. }
      assert (Etr : tr = RInv j).
      { destruct tr as [i|q|]; cbn [tok_of_ref] in Etk; [inversion Etk; reflexivity | exfalso; eapply token_of_not_invite; exact Etk | discriminate Etk]. }
      subst tr.
      set (m1 := push m (token_of (pm_secret m) (p_pub p)) (TAllowed (p_key p))).
      set (m' := {| pm_app := pm_app m1; pm_secret := pm_secret m1;
                    pm_tokens := remove_first (TkInvite j) (is_invite j) (pm_tokens m1) |}).
      assert (CC : invite_accepted m (TInvite j a s) p = Some m') by reflexivity.
      rewrite CC. cbn [lookup_obs fst spec_ops op_ok pending_after Z.eqb Pos.eqb]. rewrite (Pend j eq_refl). cbn [andb].
      change (pm_app m) with (pm_app m'). apply IH; [|exact Hn|exact Ok].
      apply (agree_consume next total m1 pending j (is_invite j) m').
      * unfold m1. apply agree_push_allowed. exact A.
      * intros x Hx. unfold registered. apply andb_true_iff in Hx. destruct Hx as [H1 H2]. rewrite H1, H2. apply orb_true_r.
      * exists e. split; [unfold m1, push; cbn [pm_tokens]; apply in_or_app; left; exact Hin|].
        rewrite Htk, Ht. cbn [tok_of_ref token_eqb is_invite]. rewrite !N.eqb_refl. reflexivity.
      * reflexivity.
Qed.

Lemma init_agree : forall app me mk total, agree 1 total (init_pm app me mk) [].
Proof.
  intros. constructor.
  - intros e i Hin He. cbn in Hin. destruct Hin as [Hin|[]]. subst e. discriminate He.
  - intros e Hin. cbn in Hin. destruct Hin as [Hin|[]]. subst e. cbn [snd]. split; intros; discriminate.
  - intros i. reflexivity.
  - intros i Hi. discriminate Hi.
Qed.

(* HOLDS (fixes 2163820 and 1e2cdf6), every history of table operations: an invitation, created or
   received, accepted once or several times, is consumed only while it is pending and at most once per
   acceptance; it is accepted only for this application; lookups answer an allowed-peer entry only
   for the claimed key; the token of an invitation that is not pending is unknown *)
Theorem invite_holds : forall app me mk ops, ops_ok 1 (n_creates ops) ops = true ->
  spec_invites app ops (run_ops 1 (init_pm app me mk) ops) = true.
Proof.
  intros app me mk ops Ok. unfold spec_invites.
  change app with (pm_app (init_pm app me mk)) at 1.
  apply (spec_ops_run (n_creates ops)); [apply init_agree | lia | exact Ok].
Qed.

(* the witnesses of the two repaired classes now pass *)
Definition twice : list pmop :=
  [OCreate; OConsume (RInv 1) {| p_key := 2; p_pub := 2 |}; OConsume (RInv 1) {| p_key := 3; p_pub := 3 |};
   OLookup (RPeer {| p_key := 2; p_pub := 2 |}) 2; OLookup (RPeer {| p_key := 3; p_pub := 3 |}) 3].
Definition accepted_twice : list pmop :=
  [OAccept (InviteFor 27 1 (Some 2)); OAccept (InviteFor 27 1 (Some 2));
   OConsume (RInv 27) {| p_key := 2; p_pub := 2 |}; OConsume (RInv 27) {| p_key := 2; p_pub := 2 |}; OConsume (RInv 27) {| p_key := 2; p_pub := 2 |}].
Definition me0 : secret := {| s_bytes := 1; s_pub := 1 |}.
Lemma invite_witnesses_now_hold :
  run_C19 (CInvites 1 me0 1 twice) = [1; 1; 2; 1; 0; 0; 1; 2; 0; 0]%Z /\
  spec_C19 (CInvites 1 me0 1 twice) (run_C19 (CInvites 1 me0 1 twice)) = true /\
  run_C19 (CInvites 1 me0 1 accepted_twice) = [1; 0; 1; 0; 3; 1; 0; 0; 0; 0]%Z /\
  spec_C19 (CInvites 1 me0 1 accepted_twice) (run_C19 (CInvites 1 me0 1 accepted_twice)) = true /\
  (* the oracle still refuses what the unrepaired code did *)
  spec_C19 (CInvites 1 me0 1 twice) [1; 1; 2; 1; 2; 1; 1; 2; 1; 3]%Z = false /\
  spec_C19 (CInvites 1 me0 1 accepted_twice) [1; 0; 1; 0; 3; 1; 3; 1; 0; 0]%Z = false.
Proof. vm_compute. repeat split; reflexivity. Qed.

(* ================================================================ tokens: run/spec *)
Definition secs_fun (secs : list secret) : Prop :=
  forall x y, In x secs -> In y secs -> s_bytes x = s_bytes y -> s_pub x = s_pub y.
Definition no_clash (secs : list secret) (probes : list (nat * nat)) : Prop :=
  forall p a b, In p probes -> nth_error secs (fst p) = Some a -> nth_error secs (snd p) = Some b ->
                s_pub a = s_pub b -> s_bytes a = s_bytes b.

Lemma all_some_map : forall {A B} (f : A -> option B) l ts, all_some (map f l) = Some ts ->
  length ts = length l /\ forall i x, nth_error l i = Some x -> exists t, f x = Some t /\ nth_error ts i = Some t.
Proof.
  intros A B f. induction l as [|a l IH]; intros ts H; cbn [map all_some] in H.
  - inversion H. split; [reflexivity|]. intros [|i] x Hx; discriminate Hx.
  - destruct (f a) as [t|] eqn:Fa; [|discriminate H].
    destruct (all_some (map f l)) as [ts'|] eqn:R; [|discriminate H]. inversion H; subst ts.
    destruct (IH ts' eq_refl) as [L N]. split; [cbn; lia|].
    intros [|i] x Hx; cbn [nth_error] in *.
    + inversion Hx; subst x. exists t. split; [exact Fa | reflexivity].
    + apply N. exact Hx.
Qed.

Lemma row_ok_map : forall secs p t qs us,
  Forall2 (fun q u => probe_rel secs p q (zb (token_eqb t u)) = true) qs us ->
  row_ok secs p qs (map (fun u => zb (token_eqb t u)) us) = true.
Proof.
  intros secs p t qs us H. induction H as [|q u qs us Hq _ IH]; [reflexivity|].
  cbn [map row_ok]. rewrite Hq, IH. reflexivity.
Qed.

Lemma probe_rel_tokens : forall secs p q t u,
  secs_fun secs ->
  (forall a b, nth_error secs (fst p) = Some a -> nth_error secs (snd p) = Some b -> s_pub a = s_pub b -> s_bytes a = s_bytes b) ->
  probe_token secs p = Some t -> probe_token secs q = Some u ->
  probe_rel secs p q (zb (token_eqb t u)) = true.
Proof.
  intros secs p q t u F NC Hp Hq. unfold probe_token in Hp, Hq.
  destruct (nth_error secs (fst p)) as [a|] eqn:Pa; [|discriminate Hp].
  destruct (nth_error secs (snd p)) as [b|] eqn:Pb; [|discriminate Hp].
  destruct (nth_error secs (fst q)) as [c|] eqn:Qc; [|discriminate Hq].
  destruct (nth_error secs (snd q)) as [d|] eqn:Qd; [|discriminate Hq].
  inversion Hp; subst t. inversion Hq; subst u. clear Hp Hq.
  unfold probe_rel. apply andb_true_iff. split.
  - destruct (Nat.eqb (fst p) (snd q) && Nat.eqb (snd p) (fst q)) eqn:S; [|reflexivity].
    apply andb_true_iff in S. destruct S as [S1 S2]. apply Nat.eqb_eq in S1, S2.
    rewrite S1 in Pa. rewrite S2 in Pb.
    assert (Ed : d = a) by congruence. assert (Ec : c = b) by congruence. subst c d.
    rewrite (token_of_sym a b (NC a b eq_refl eq_refl)).
    assert (E : token_eqb (token_of b (s_pub a)) (token_of b (s_pub a)) = true) by (apply token_eqb_eq; reflexivity).
    rewrite E. reflexivity.
  - unfold pair_of. rewrite Pa, Pb, Qc, Qd. cbn [pair_eqb].
    destruct (N.eqb (N.min (s_pub a) (s_pub b)) (N.min (s_pub c) (s_pub d)) && N.eqb (N.max (s_pub a) (s_pub b)) (N.max (s_pub c) (s_pub d))) eqn:E; [reflexivity|].
    destruct (token_eqb (token_of a (s_pub b)) (token_of c (s_pub d))) eqn:T; [|reflexivity].
    exfalso. apply token_eqb_eq in T.
    assert (Fa : forall x y : secret, In x [a; c] -> In y [a; c] -> s_bytes x = s_bytes y -> s_pub x = s_pub y).
    { intros x y Hx Hy. apply F.
      - destruct Hx as [Hx|[Hx|[]]]; subst x; eapply nth_error_In; eassumption.
      - destruct Hy as [Hy|[Hy|[]]]; subst y; eapply nth_error_In; eassumption. }
    pose proof (token_of_pair a b c d Fa T) as PE. inversion PE as [[E1 E2]].
    rewrite E1, E2, !N.eqb_refl in E. discriminate E.
Qed.

Lemma spec_tokens_run : forall secs probes ts,
  secs_fun secs -> no_clash secs probes ->
  all_some (map (probe_token secs) probes) = Some ts ->
  spec_tokens secs probes (eq_matrix ts) = true.
Proof.
  intros secs. induction probes as [|p r IH]; intros ts F NC H.
  - cbn in H. inversion H. reflexivity.
  - cbn [map all_some] in H.
    destruct (probe_token secs p) as [t|] eqn:Pp; [|discriminate H].
    destruct (all_some (map (probe_token secs) r)) as [us|] eqn:R; [|discriminate H]. inversion H; subst ts.
    destruct (all_some_map _ _ _ R) as [L N].
    cbn [eq_matrix spec_tokens].
    assert (Lm : length (map (fun u => zb (token_eqb t u)) us) = length r) by (rewrite map_length; exact L).
    rewrite <- Lm. rewrite firstn_app, Nat.sub_diag, firstn_all. cbn [firstn]. rewrite app_nil_r.
    rewrite skipn_app, Nat.sub_diag, skipn_all. cbn [skipn app].
    apply andb_true_iff. split.
    + apply row_ok_map.
      (* pointwise over r / us *)
      clear IH H Lm. revert us R L N. induction r as [|q r IHr]; intros us R L N.
      * destruct us; [constructor | discriminate L].
      * destruct us as [|u us]; [discriminate L|].
        cbn [map all_some] in R. destruct (probe_token secs q) as [u'|] eqn:Pq; [|discriminate R].
        destruct (all_some (map (probe_token secs) r)) as [us'|] eqn:R'; [|discriminate R]. inversion R; subst u' us'.
        constructor.
        -- apply probe_rel_tokens; try assumption.
           intros a b Ha Hb. eapply NC; [left; reflexivity | exact Ha | exact Hb].
        -- apply IHr.
           ++ intros p0 a b Hin. apply NC. destruct Hin as [Hin|Hin]; [left; exact Hin | right; right; exact Hin].
           ++ reflexivity.
           ++ cbn in L. lia.
           ++ destruct (all_some_map _ _ _ R') as [_ N']. exact N'.
    + apply IH; try assumption; [|reflexivity]. intros p0 a b Hin. apply NC. right. exact Hin.
Qed.

(* known class 2 is exactly the negation of no_clash *)
Lemma known_tokens_no_clash : forall secs probes, known_C19 (CTokens secs probes) = [] -> no_clash secs probes.
Proof.
  intros secs probes K p a b Hin Ha Hb Hp. cbn [known_C19] in K.
  destruct (existsb _ probes) eqn:E; [discriminate K|].
  destruct (N.eqb (s_bytes a) (s_bytes b)) eqn:B; [apply N.eqb_eq; exact B|].
  exfalso. assert (X : existsb (fun p => match nth_error secs (fst p), nth_error secs (snd p) with
                           | Some a, Some b => N.eqb (s_pub a) (s_pub b) && negb (N.eqb (s_bytes a) (s_bytes b))
                           | _, _ => false end) probes = true).
  { apply existsb_exists. exists p. split; [exact Hin|]. rewrite Ha, Hb, Hp, N.eqb_refl, B. reflexivity. }
  rewrite X in E. discriminate.
Qed.

(* ================================================================ service level: served after own proof *)
Lemma serve_conn_spec : forall lk conns, spec_circuit conns (flat_map (serve_conn lk) conns) = true.
Proof.
  intros lk. induction conns as [|[[c t] r] conns IH]; [reflexivity|].
  cbn [flat_map]. unfold serve_conn at 1. cbn [app spec_circuit Z.eqb andb].
  rewrite IH, andb_true_r.
  destruct (init_connection 0 lk t r true) as [res es] eqn:IC. cbn [fst snd].
  destruct res; cbn [andb zb Z.eqb]; try reflexivity.
  destruct (ready_of es && negb (Z.eqb (bound_of es) (-1))); cbn [zb Z.eqb]; [|reflexivity].
  destruct (auth_holds _ _ _ _ _ _ IC) as [a [_ [_ [_ [E _]]]]]. rewrite E. reflexivity.
Qed.

(* a connection is served (room list answered) only if the remote was entitled ON THIS CONNECTION,
   whatever circuit the connection announces and whatever happened on other connections *)
Theorem served_only_after_own_proof : forall lk circuit t r before ev after,
  serve_conn lk (circuit, t, r) = [before; ev; after] -> before = 0%Z /\ (after = 1%Z -> exists k, entitled 0 t r = Some k).
Proof.
  intros lk circuit t r before ev after H. unfold serve_conn in H.
  destruct (init_connection 0 lk t r true) as [res es] eqn:IC. cbn [fst snd] in H. inversion H; subst. split; [reflexivity|].
  intro A. destruct res; cbn [andb zb] in A; try discriminate A.
  destruct (auth_holds _ _ _ _ _ _ IC) as [a [_ [_ [_ [E _]]]]]. exists (a_key a). exact E.
Qed.

(* ================================================================ restarts: what was consumed is not reloaded *)
Lemma rebuild_owned_iff : forall mk s i t, In (TkInvite i, t) (pm_tokens (rebuild mk s)) ->
  (t = TOwned i /\ In i (sy_db_owned s)) \/ (exists a sg, t = TInvite i a sg /\ In (i, a, sg) (sy_db_invites s)).
Proof.
  intros mk s i t H. unfold rebuild, with_tokens in H. cbn [pm_tokens] in H.
  destruct H as [H|H]; [discriminate H|].
  apply in_app_or in H. destruct H as [H|H].
  - apply in_map_iff in H. destruct H as [p [E _]]. inversion E as [[E1 E2]]. exfalso. eapply token_of_not_invite. exact E1.
  - apply in_app_or in H. destruct H as [H|H].
    + apply in_map_iff in H. destruct H as [j [E Hj]]. inversion E; subst. left. split; [reflexivity | exact Hj].
    + apply in_map_iff in H. destruct H as [[[j a] sg] [E Hj]]. inversion E; subst. right. exists a, sg. split; [reflexivity | exact Hj].
Qed.

(* an owned invitation that was used — whether or not its default room could be granted — is gone
   from the database, so no restart brings it back *)
Theorem consumed_owned_not_reloaded : forall mk s inv p,
  ~ In (TkInvite inv, TOwned inv) (pm_tokens (rebuild mk (consume_owned s inv p))).
Proof.
  intros mk s inv p H. apply rebuild_owned_iff in H. destruct H as [[_ H]|[a [sg [E _]]]]; [|discriminate E].
  unfold consume_owned in H. cbn [sy_db_owned] in H. apply filter_In in H. destruct H as [_ H].
  rewrite N.eqb_refl in H. discriminate H.
Qed.
Theorem consumed_invite_not_reloaded : forall mk s t inv p a sg,
  ~ In (TkInvite inv, TInvite inv a sg) (pm_tokens (rebuild mk (consume_invite s t inv p))).
Proof.
  intros mk s t inv p a sg H. apply rebuild_owned_iff in H. destruct H as [[E _]|[a' [sg' [E H]]]]; [discriminate E|].
  unfold consume_invite in H. cbn [sy_db_invites] in H. apply filter_In in H. destruct H as [_ H].
  cbn [fst] in H. rewrite N.eqb_refl in H. discriminate H.
Qed.

Definition p2 : peer := {| p_key := 2; p_pub := 2 |}.
Definition p3 : peer := {| p_key := 3; p_pub := 3 |}.
Definition p4 : peer := {| p_key := 4; p_pub := 4 |}.
(* the witness of the repaired class 4 (default room that cannot be granted) and a grantable one *)
Definition ungrantable : list dop :=
  [DCreate 2; DConsume (TkInvite 1) p2; DConsume (TkInvite 1) p3; DRestart; DConsume (TkInvite 1) p4].
Definition grantable : list dop :=
  [DCreate 1; DCreate 0; DConsume (TkInvite 1) p2; DRestart; DConsume (TkInvite 1) p3; DConsume (TkInvite 2) p3; DRestart; DConsume (TkInvite 2) p4].
(* the witness of the repaired class 5: an own invitation accepted, then a restart *)
Definition own_accepted : list dop :=
  [DCreate 0; DAccept (InviteFor 1 1 (Some 2)); DRestart; DConsume (TkInvite 1) p3; DLookup (TkInvite 1) 2; DConsume (TkInvite 1) p2].
Lemma invdb_witnesses :
  run_C19 (CInvDb 1 me0 1 ungrantable) = [1; 1; 2; 1; 0; 0; 1; 0; 0; 0]%Z /\
  spec_C19 (CInvDb 1 me0 1 ungrantable) (run_C19 (CInvDb 1 me0 1 ungrantable)) = true /\
  spec_C19 (CInvDb 1 me0 1 ungrantable) [1; 1; 2; 1; 2; 1; 1; 0; 0; 0]%Z = false /\
  run_C19 (CInvDb 1 me0 1 grantable) = [1; 1; 1; 2; 2; 1; 1; 0; 0; 0; 2; 1; 1; 0; 0; 0]%Z /\
  spec_C19 (CInvDb 1 me0 1 grantable) (run_C19 (CInvDb 1 me0 1 grantable)) = true /\
  run_C19 (CInvDb 1 me0 1 own_accepted) = [1; 1; 1; 0; 1; 0; 2; 1; 0; 0; 0; 0]%Z /\
  spec_C19 (CInvDb 1 me0 1 own_accepted) (run_C19 (CInvDb 1 me0 1 own_accepted)) = true /\
  spec_C19 (CInvDb 1 me0 1 own_accepted) [1; 1; 1; 0; 1; 0; 2; 1; 3; 1; 3; 1]%Z = false.
Proof. vm_compute. repeat split; reflexivity. Qed.

(* ================================================================ whole histories with restarts *)
Definition idin (i : N) (l : list (N * N * option key)) : bool := existsb (fun x => N.eqb (fst (fst x)) i) l.

(* the table agrees with the pending set (agree), and so does the database: created invitations
   (ranks below next) are pending iff their sys.OwnedInvite row exists, received ones (foreign ids,
   above total) iff their sys.Invite row exists *)
Record dagree (next total : N) (s : sys) (P : list N) : Prop := {
  da_mem : agree next total (sy_pm s) P;
  da_dbo_nodup : NoDup (sy_db_owned s);
  da_dbi_uniq : NoDup (map (fun x => fst (fst x)) (sy_db_invites s));
  (* pending = has a row; never both kinds of row *)
  da_db : forall i, mem_n i P = existsb (N.eqb i) (sy_db_owned s) || idin i (sy_db_invites s);
  da_excl : forall i, In i (sy_db_owned s) -> idin i (sy_db_invites s) = false;
  da_dbo_lt : forall i, In i (sy_db_owned s) -> i < next;
  da_dbi_rng : forall x, In x (sy_db_invites s) -> fst (fst x) < next \/ total < fst (fst x);
  (* what the table holds has its row *)
  da_link_o : forall tk i, In (tk, TOwned i) (pm_tokens (sy_pm s)) -> In i (sy_db_owned s);
  da_link_i : forall tk i a sg, In (tk, TInvite i a sg) (pm_tokens (sy_pm s)) -> idin i (sy_db_invites s) = true;
  da_next : sy_next s = next }.

Lemma existsb_eqb_In : forall i l, existsb (N.eqb i) l = true <-> In i l.
Proof.
  intros i l. rewrite existsb_exists. split.
  - intros [x [Hx E]]. apply N.eqb_eq in E. subst. exact Hx.
  - intro H. exists i. split; [exact H | apply N.eqb_refl].
Qed.
Lemma existsb_eqb_notin : forall i l, ~ In i l -> existsb (N.eqb i) l = false.
Proof. intros i l H. destruct (existsb (N.eqb i) l) eqn:E; [|reflexivity]. apply existsb_eqb_In in E. contradiction. Qed.

Lemma idin_In : forall i l, idin i l = true <-> In i (map (fun x : N * N * option key => fst (fst x)) l).
Proof.
  intros i l. unfold idin. rewrite existsb_exists. split.
  - intros [x [Hx E]]. apply N.eqb_eq in E. apply in_map_iff. exists x. split; assumption.
  - intro H. apply in_map_iff in H. destruct H as [x [E Hx]]. exists x. split; [exact Hx | apply N.eqb_eq; exact E].
Qed.

(* what PeerManager::new registers for invitation i *)
Lemma cntr_owned_map : forall i l, NoDup l ->
  cntr i (map (fun j => (TkInvite j, TOwned j)) l) = if existsb (N.eqb i) l then 1%nat else 0%nat.
Proof.
  intros i. induction l as [|j l IH]; intros ND; [reflexivity|].
  inversion ND as [|x y Hj ND']; subst. cbn [map existsb]. unfold cntr in *. cbn [filter].
  unfold registered at 1. cbn [fst snd token_eqb is_owned is_invite]. rewrite orb_false_r, andb_diag.
  rewrite (N.eqb_sym i j). destruct (N.eqb j i) eqn:E; cbn [orb length].
  - apply N.eqb_eq in E. subst j. rewrite (IH ND'). rewrite (existsb_eqb_notin i l Hj). reflexivity.
  - apply IH. exact ND'.
Qed.
Lemma cntr_invite_map : forall i (l : list (N * N * option key)), NoDup (map (fun x => fst (fst x)) l) ->
  cntr i (map (fun x => let '(j, a, sg) := x in (TkInvite j, TInvite j a sg)) l) = if idin i l then 1%nat else 0%nat.
Proof.
  intros i. induction l as [|[[j a] sg] l IH]; intros ND; [reflexivity|].
  cbn [map fst] in ND. inversion ND as [|x y Hj ND']; subst. cbn [map]. unfold idin, cntr in *. cbn [existsb filter fst].
  unfold registered at 1. cbn [fst snd token_eqb is_owned is_invite]. cbn [orb]. rewrite andb_diag.
  destruct (N.eqb j i) eqn:E; cbn [orb length].
  - apply N.eqb_eq in E. subst j. rewrite (IH ND').
    assert (X : existsb (fun x : N * N * option key => N.eqb (fst (fst x)) i) l = false).
    { destruct (existsb _ l) eqn:Ex; [|reflexivity]. exfalso. apply Hj. apply idin_In. exact Ex. }
    rewrite X. reflexivity.
  - apply IH. exact ND'.
Qed.
Lemma cntr_allowed_map : forall i sc (l : list peer),
  cntr i (map (fun p => (token_of sc (p_pub p), TAllowed (p_key p))) l) = 0%nat.
Proof.
  intros i sc. induction l as [|p l IH]; [reflexivity|]. cbn [map]. unfold cntr in *. cbn [filter].
  unfold registered at 1. cbn [snd is_owned is_invite orb]. rewrite andb_false_r. exact IH.
Qed.

Lemma agree_create : forall next total m P, agree next total m P -> mem_n next P = false ->
  agree (N.succ next) total (create_invite m next) (next :: P).
Proof.
  intros next total m P A NP. constructor.
  - intros e i Hin He. unfold create_invite, push in Hin. cbn [pm_tokens] in Hin. apply in_app_or in Hin.
    destruct Hin as [Hin|[Hin|[]]]; [eapply ag_under; eassumption|].
    subst e. cbn [fst] in He. inversion He; subst i. unfold registered. cbn [fst snd token_eqb is_owned]. rewrite N.eqb_refl. reflexivity.
  - intros e Hin. unfold create_invite, push in Hin. cbn [pm_tokens] in Hin. apply in_app_or in Hin.
    destruct Hin as [Hin|[Hin|[]]]; [eapply ag_placed; eassumption|].
    subst e. cbn [fst snd]. split; [intros i Hi; inversion Hi; reflexivity | intros; discriminate].
  - intros i. unfold create_invite, push. cbn [pm_tokens]. rewrite cntr_app, mem_n_cons. rewrite (ag_count _ _ _ _ A i).
    unfold cntr at 1. cbn [filter]. unfold registered. cbn [fst snd token_eqb is_owned is_invite]. rewrite orb_false_r, andb_diag.
    rewrite (N.eqb_sym next i). destruct (N.eqb i next) eqn:E; cbn [orb length].
    + apply N.eqb_eq in E. subst i. rewrite NP. reflexivity.
    + destruct (mem_n i P); reflexivity.
  - intros i Hi. rewrite mem_n_cons in Hi. apply orb_true_iff in Hi. destruct Hi as [Hi|Hi].
    + apply N.eqb_eq in Hi. subst i. left. lia.
    + destruct (ag_ids _ _ _ _ A i Hi); [left; lia | right; assumption].
Qed.
Lemma agree_accept_known : forall next total m P inv, agree next total m P -> mem_n inv P = true ->
  agree next total m (inv :: P).
Proof.
  intros next total m P inv A M. constructor; try apply A.
  - intros i. rewrite mem_n_cons. rewrite (ag_count _ _ _ _ A i).
    destruct (N.eqb i inv) eqn:Ei; cbn [orb]; [|reflexivity]. apply N.eqb_eq in Ei. subst i. rewrite M. reflexivity.
  - intros i Hi. rewrite mem_n_cons in Hi. apply orb_true_iff in Hi. destruct Hi as [Hi|Hi]; [|apply (ag_ids _ _ _ _ A); exact Hi].
    apply N.eqb_eq in Hi. subst i. apply (ag_ids _ _ _ _ A). exact M.
Qed.
Lemma agree_accept_new : forall next total m P inv a sg, agree next total m P -> mem_n inv P = false ->
  (inv < next \/ total < inv) -> agree next total (push m (TkInvite inv) (TInvite inv a sg)) (inv :: P).
Proof.
  intros next total m P inv a sg A NP Hid. constructor.
  - intros e i Hin He. unfold push in Hin. cbn [pm_tokens] in Hin. apply in_app_or in Hin.
    destruct Hin as [Hin|[Hin|[]]]; [eapply ag_under; eassumption|].
    subst e. cbn [fst] in He. inversion He; subst i. unfold registered. cbn [fst snd token_eqb is_owned is_invite]. rewrite N.eqb_refl. reflexivity.
  - intros e Hin. unfold push in Hin. cbn [pm_tokens] in Hin. apply in_app_or in Hin.
    destruct Hin as [Hin|[Hin|[]]]; [eapply ag_placed; eassumption|].
    subst e. cbn [fst snd]. split; [intros; discriminate | intros i a0 s0 Hi; inversion Hi; reflexivity].
  - intros i. unfold push. cbn [pm_tokens]. rewrite cntr_app, mem_n_cons. rewrite (ag_count _ _ _ _ A i).
    unfold cntr at 1. cbn [filter]. unfold registered. cbn [fst snd token_eqb is_owned is_invite]. cbn [orb]. rewrite andb_diag.
    rewrite (N.eqb_sym inv i). destruct (N.eqb i inv) eqn:Ei; cbn [orb length].
    + apply N.eqb_eq in Ei. subst i. rewrite NP. reflexivity.
    + destruct (mem_n i P); reflexivity.
  - intros i Hi. rewrite mem_n_cons in Hi. apply orb_true_iff in Hi. destruct Hi as [Hi|Hi]; [|apply (ag_ids _ _ _ _ A); exact Hi].
    apply N.eqb_eq in Hi. subst i. exact Hid.
Qed.

Lemma In_push : forall m tk t e, In e (pm_tokens (push m tk t)) -> In e (pm_tokens m) \/ e = (tk, t).
Proof. intros m tk t e H. unfold push in H. cbn [pm_tokens] in H. apply in_app_or in H. destruct H as [H|[H|[]]]; auto. Qed.

(* a restart: the rebuilt table agrees with the pending set again *)
Lemma dagree_restart : forall mk next total s P, dagree next total s P ->
  dagree next total {| sy_pm := rebuild mk s; sy_next := sy_next s; sy_db_owned := sy_db_owned s;
                       sy_db_invites := sy_db_invites s; sy_db_allowed := sy_db_allowed s |} P.
Proof.
  intros mk next total s P D.
  assert (Shape : forall e, In e (pm_tokens (rebuild mk s)) ->
            e = (TkOwn, TAllowed mk) \/ (exists p, e = (token_of (pm_secret (sy_pm s)) (p_pub p), TAllowed (p_key p))) \/
            (exists j, In j (sy_db_owned s) /\ e = (TkInvite j, TOwned j)) \/
            (exists j a sg, In (j, a, sg) (sy_db_invites s) /\ e = (TkInvite j, TInvite j a sg))).
  { intros e H. unfold rebuild, with_tokens in H. cbn [pm_tokens] in H. destruct H as [H|H]; [left; auto|].
    apply in_app_or in H. destruct H as [H|H].
    - apply in_map_iff in H. destruct H as [p [E _]]. right. left. exists p. auto.
    - apply in_app_or in H. destruct H as [H|H].
      + apply in_map_iff in H. destruct H as [j [E Hj]]. right. right. left. exists j. auto.
      + apply in_map_iff in H. destruct H as [[[j a] sg] [E Hj]]. right. right. right. exists j, a, sg. auto. }
  constructor; cbn [sy_pm sy_db_owned sy_db_invites sy_next]; try apply D.
  - constructor.
    + intros e i Hin He. destruct (Shape e Hin) as [E|[[p E]|[[j [_ E]]|[j [a [sg [_ E]]]]]]]; subst e; cbn [fst] in He.
      * discriminate He.
      * exfalso. eapply token_of_not_invite. exact He.
      * inversion He; subst. unfold registered. cbn [fst snd token_eqb is_owned]. rewrite N.eqb_refl. reflexivity.
      * inversion He; subst. unfold registered. cbn [fst snd token_eqb is_owned is_invite]. rewrite N.eqb_refl. reflexivity.
    + intros e Hin. destruct (Shape e Hin) as [E|[[p E]|[[j [_ E]]|[j [a [sg [_ E]]]]]]]; subst e; cbn [fst snd]; split; intros; try discriminate.
      * inversion H; reflexivity.
      * inversion H; reflexivity.
    + intros i. unfold rebuild, with_tokens. cbn [pm_tokens].
      change ((TkOwn, TAllowed mk) :: ?l) with ([(TkOwn, TAllowed mk)] ++ l).
      rewrite !cntr_app, cntr_allowed_map, (cntr_owned_map i _ (da_dbo_nodup _ _ _ _ D)), (cntr_invite_map i _ (da_dbi_uniq _ _ _ _ D)).
      unfold cntr at 1. cbn [filter]. unfold registered at 1. cbn [fst token_eqb andb length plus].
      rewrite (da_db _ _ _ _ D i).
      destruct (existsb (N.eqb i) (sy_db_owned s)) eqn:Eo; cbn [orb].
      * apply existsb_eqb_In in Eo. rewrite (da_excl _ _ _ _ D i Eo). reflexivity.
      * destruct (idin i (sy_db_invites s)); reflexivity.
    + apply (ag_ids _ _ _ _ (da_mem _ _ _ _ D)).
  - intros tk i Hin. destruct (Shape _ Hin) as [E|[[p E]|[[j [Hj E]]|[j [a [sg [_ E]]]]]]]; try discriminate E.
    inversion E; subst. exact Hj.
  - intros tk i a sg Hin. destruct (Shape _ Hin) as [E|[[p E]|[[j [_ E]]|[j [a' [sg' [Hj E]]]]]]]; try discriminate E.
    inversion E; subst. apply idin_In. apply in_map_iff. eexists. split; [|exact Hj]. reflexivity.
Qed.

Lemma filter_neq_existsb : forall i inv l, existsb (N.eqb i) (filter (fun j => negb (N.eqb j inv)) l) = existsb (N.eqb i) l && negb (N.eqb i inv).
Proof.
  intros i inv. induction l as [|j l IH]; [reflexivity|]. cbn [filter existsb].
  destruct (N.eqb j inv) eqn:E; cbn [negb existsb].
  - rewrite IH. apply N.eqb_eq in E. subst j. destruct (N.eqb i inv); cbn [orb negb]; [rewrite !andb_false_r; reflexivity | reflexivity].
  - rewrite IH. destruct (N.eqb i j) eqn:E2; cbn [orb]; [|reflexivity].
    apply N.eqb_eq in E2. subst j. rewrite E. reflexivity.
Qed.
Lemma filter_id_idin : forall i inv (l : list (N * N * option key)),
  idin i (filter (fun x => negb (N.eqb (fst (fst x)) inv)) l) = idin i l && negb (N.eqb i inv).
Proof.
  intros i inv. unfold idin. induction l as [|x l IH]; [reflexivity|]. cbn [filter existsb].
  destruct (N.eqb (fst (fst x)) inv) eqn:E; cbn [negb existsb].
  - rewrite IH. apply N.eqb_eq in E. rewrite E. rewrite (N.eqb_sym inv i). destruct (N.eqb i inv); cbn [orb negb]; [rewrite !andb_false_r; reflexivity | reflexivity].
  - rewrite IH. destruct (N.eqb (fst (fst x)) i) eqn:E2; cbn [orb]; [|reflexivity].
    apply N.eqb_eq in E2. rewrite E2 in E. rewrite E. reflexivity.
Qed.
Lemma NoDup_filter : forall {A} (f : A -> bool) l, NoDup l -> NoDup (filter f l).
Proof.
  intros A f. induction l as [|x l IH]; intros ND; [constructor|]. inversion ND; subst. cbn [filter].
  destruct (f x); [constructor; [intro H; apply filter_In in H; tauto | auto] | auto].
Qed.
Lemma NoDup_map_filter : forall {A B} (g : A -> B) (f : A -> bool) l, NoDup (map g l) -> NoDup (map g (filter f l)).
Proof.
  intros A B g f. induction l as [|x l IH]; intros ND; [constructor|]. cbn [map] in ND. inversion ND; subst. cbn [filter].
  destruct (f x); cbn [map]; [constructor; [|auto] | auto].
  intro H. apply H1. apply in_map_iff in H. destruct H as [y [E Hy]]. apply filter_In in Hy. apply in_map_iff. exists y. tauto.
Qed.

Lemma NoDup_snoc : forall {A} (l : list A) x, NoDup l -> ~ In x l -> NoDup (l ++ [x]).
Proof.
  intros A l x ND Hx. induction ND as [|y l Hy ND IH]; [cbn; constructor; [intros []|constructor]|].
  cbn [app]. constructor.
  - intro H. apply in_app_or in H. destruct H as [H|[H|[]]]; [contradiction | subst; apply Hx; left; reflexivity].
  - apply IH. intro H. apply Hx. right. exact H.
Qed.

(* no registration of i is left once its count is zero *)
Lemma no_entry_when_gone : forall next total m P i tk t, agree next total m P -> mem_n i P = false ->
  In (tk, t) (pm_tokens m) -> (t = TOwned i \/ exists a sg, t = TInvite i a sg) -> False.
Proof.
  intros next total m P i tk t A M Hin Ht.
  assert (Etk : tk = TkInvite i).
  { destruct Ht as [E|[a [sg E]]]; subst t.
    - apply (proj1 (ag_placed _ _ _ _ A _ Hin) i). reflexivity.
    - apply (proj2 (ag_placed _ _ _ _ A _ Hin) i a sg). reflexivity. }
  subst tk.
  pose proof (cntr_pos i _ _ Hin (ag_under _ _ _ _ A _ i Hin eq_refl)) as C.
  rewrite (ag_count _ _ _ _ A i), M in C. lia.
Qed.

(* THE whole-history theorem for the table with its database: restarts and default rooms included *)
Lemma spec_dops_run : forall mk total ops next s P, dagree next total s P ->
  next + n_dcreates ops = N.succ total -> dops_ok next total ops = true ->
  spec_dops (pm_app (sy_pm s)) P ops (run_dops mk s ops) = true.
Proof.
  intros mk total. induction ops as [|o ops IH]; intros next s P D Hn Ok; [reflexivity|].
  cbn [run_dops].
  pose proof (da_mem _ _ _ _ D) as A.
  destruct o as [g|b|tk k|tk p|]; cbn [dstep].
  - (* create *)
    cbn [n_dcreates] in Hn. cbn [dops_ok] in Ok. rewrite (da_next _ _ _ _ D).
    cbn [spec_dops dop_ok dpending_after andb]. unfold zn. rewrite N2Z.id.
    assert (NP : mem_n next P = false).
    { destruct (mem_n next P) eqn:M; [|reflexivity]. destruct (ag_ids _ _ _ _ A next M); lia. }
    assert (Nd : idin next (sy_db_invites s) = false).
    { pose proof (da_db _ _ _ _ D next) as X. rewrite NP in X. symmetry in X. apply orb_false_iff in X. apply X. }
    assert (No : ~ In next (sy_db_owned s)) by (intro H; pose proof (da_dbo_lt _ _ _ _ D next H); lia).
    set (s' := {| sy_pm := create_invite (sy_pm s) next; sy_next := N.succ next; sy_db_owned := sy_db_owned s ++ [next];
                  sy_db_invites := sy_db_invites s; sy_db_allowed := sy_db_allowed s |}).
    change (pm_app (sy_pm s)) with (pm_app (sy_pm s')). apply (IH (N.succ next)); [|lia|exact Ok].
    constructor; cbn [sy_pm sy_db_owned sy_db_invites sy_next s'].
    + apply agree_create; assumption.
    + apply NoDup_snoc; [exact (da_dbo_nodup _ _ _ _ D) | exact No].
    + exact (da_dbi_uniq _ _ _ _ D).
    + intros i. rewrite mem_n_cons, existsb_app, (da_db _ _ _ _ D i). cbn [existsb]. rewrite orb_false_r.
      destruct (N.eqb i next); destruct (existsb (N.eqb i) (sy_db_owned s)); destruct (idin i (sy_db_invites s)); reflexivity.
    + intros i Hin. apply in_app_or in Hin. destruct Hin as [Hin|[Hin|[]]]; [apply (da_excl _ _ _ _ D); exact Hin | subst i; exact Nd].
    + intros i Hin. apply in_app_or in Hin. destruct Hin as [Hin|[Hin|[]]]; [pose proof (da_dbo_lt _ _ _ _ D i Hin); lia | lia].
    + intros x Hx. destruct (da_dbi_rng _ _ _ _ D x Hx); [left; lia | right; assumption].
    + intros t i Hin. apply In_push in Hin. apply in_or_app. destruct Hin as [Hin|E]; [left; eapply (da_link_o _ _ _ _ D); exact Hin | right; inversion E; left; reflexivity].
    + intros t i a sg Hin. apply In_push in Hin. destruct Hin as [Hin|E]; [eapply (da_link_i _ _ _ _ D); exact Hin | discriminate E].
    + reflexivity.
  - (* accept *)
    cbn [n_dcreates] in Hn.
    destruct b as [|inv a sg]; cbn [accept_invite].
    + cbn [spec_dops dop_ok dpending_after zn Z.of_N Z.eqb andb]. cbn [dops_ok] in Ok. apply (IH next); assumption.
    + cbn [dops_ok] in Ok. apply andb_true_iff in Ok. destruct Ok as [Oid Ok].
      assert (Rng : inv < next \/ total < inv) by (apply orb_true_iff in Oid; destruct Oid as [O|O]; apply N.ltb_lt in O; auto).
      destruct (N.eqb a (pm_app (sy_pm s))) eqn:E.
      2:{ cbn [spec_dops dop_ok dpending_after zn Z.of_N Z.eqb andb]. apply (IH next); assumption. }
      assert (Pm : mem_n inv P = existsb (registered inv) (pm_tokens (sy_pm s))).
      { rewrite existsb_cntr, (ag_count _ _ _ _ A inv). destruct (mem_n inv P); reflexivity. }
      destruct (existsb (registered inv) (pm_tokens (sy_pm s))) eqn:X.
      * (* already known: nothing is written *)
        cbn [spec_dops dop_ok dpending_after zn Z.of_N Z.eqb Pos.eqb]. rewrite E. cbn [andb].
        apply (IH next); [|exact Hn|exact Ok].
        constructor; try apply D.
        -- apply agree_accept_known; [exact A | exact Pm].
        -- intros i. rewrite mem_n_cons, <- (da_db _ _ _ _ D i). destruct (N.eqb i inv) eqn:Ei; cbn [orb]; [|reflexivity].
           apply N.eqb_eq in Ei. subst i. symmetry. exact Pm.
      * (* registered now, row written now *)
        assert (Xd : existsb (fun x : N * N * option key => N.eqb (fst (fst x)) inv) (sy_db_invites s) = false).
        { pose proof (da_db _ _ _ _ D inv) as Y. rewrite Pm in Y. symmetry in Y. apply orb_false_iff in Y. apply Y. }
        assert (Xo : ~ In inv (sy_db_owned s)).
        { intro H. pose proof (da_db _ _ _ _ D inv) as Y. rewrite Pm in Y. symmetry in Y. apply orb_false_iff in Y.
          destruct Y as [Y _]. apply existsb_eqb_In in H. rewrite H in Y. discriminate Y. }
        cbn [spec_dops dop_ok dpending_after zn Z.of_N Z.eqb Pos.eqb]. rewrite E. cbn [andb].
        rewrite Xd.
        set (s' := {| sy_pm := push (sy_pm s) (TkInvite inv) (TInvite inv a sg); sy_next := sy_next s; sy_db_owned := sy_db_owned s;
                      sy_db_invites := sy_db_invites s ++ [(inv, a, sg)]; sy_db_allowed := sy_db_allowed s |}).
        change (pm_app (sy_pm s)) with (pm_app (sy_pm s')). apply (IH next); [|exact Hn|exact Ok].
        constructor; cbn [sy_pm sy_db_owned sy_db_invites sy_next s']; try apply D.
        -- apply agree_accept_new; [exact A | exact Pm | exact Rng].
        -- rewrite map_app. cbn [map fst]. apply NoDup_snoc; [exact (da_dbi_uniq _ _ _ _ D)|].
           intro H. apply idin_In in H. unfold idin in H. rewrite Xd in H. discriminate H.
        -- intros i. rewrite mem_n_cons, (da_db _ _ _ _ D i). unfold idin. rewrite existsb_app. cbn [existsb fst]. rewrite orb_false_r.
           rewrite (N.eqb_sym inv i).
           destruct (N.eqb i inv); destruct (existsb (N.eqb i) (sy_db_owned s)); destruct (existsb (fun x : N * N * option key => N.eqb (fst (fst x)) i) (sy_db_invites s)); reflexivity.
        -- intros i Hi. unfold idin. rewrite existsb_app. cbn [existsb fst]. rewrite orb_false_r.
           pose proof (da_excl _ _ _ _ D i Hi) as Ex. unfold idin in Ex. rewrite Ex. cbn [orb].
           apply N.eqb_neq. intro Ei. subst i. contradiction.
        -- intros x Hx. apply in_app_or in Hx. destruct Hx as [Hx|[Hx|[]]]; [apply (da_dbi_rng _ _ _ _ D); exact Hx | subst x; exact Rng].
        -- intros t i Hin. apply In_push in Hin. destruct Hin as [Hin|Ee]; [eapply (da_link_o _ _ _ _ D); exact Hin | discriminate Ee].
        -- intros t i a0 sg0 Hin. apply In_push in Hin. unfold idin. rewrite existsb_app. cbn [existsb fst].
           destruct Hin as [Hin|Ee].
           ++ pose proof (da_link_i _ _ _ _ D _ _ _ _ Hin) as L. unfold idin in L. rewrite L. reflexivity.
           ++ inversion Ee; subst. rewrite N.eqb_refl. rewrite orb_true_r. reflexivity.
  - (* lookup *)
    cbn [n_dcreates] in Hn. cbn [dops_ok] in Ok.
    assert (Unk : forall inv, tk = TkInvite inv -> mem_n inv P = false -> get_token_type (sy_pm s) tk k = None)
      by (intros inv Et M; subst tk; eapply agree_unknown; eassumption).
    destruct (get_token_type (sy_pm s) tk k) as [t|] eqn:G.
    + assert (Pend : match tk with TkInvite inv => mem_n inv P = true | _ => True end).
      { destruct tk; try exact Logic.I. destruct (mem_n inv P) eqn:M; [reflexivity|]. specialize (Unk inv eq_refl M). discriminate Unk. }
      assert (Key : forall q, t = TAllowed q -> q = k).
      { intros q Et. subst t. unfold get_token_type in G. destruct (find _ (pm_tokens (sy_pm s))) as [e|] eqn:F; [|discriminate G].
        inversion G as [G']. apply find_some in F. destruct F as [_ He]. apply andb_true_iff in He. destruct He as [_ He].
        rewrite G' in He. cbn [entry_matches] in He. apply N.eqb_eq. exact He. }
      destruct t as [q|i|i a0 s0]; cbn [spec_dops dop_ok dpending_after zn Z.of_N Z.eqb Pos.eqb];
        rewrite (IH next s P D Hn Ok), andb_true_r.
      * rewrite (Key q eq_refl). unfold zn. rewrite Z.eqb_refl. cbn [andb]. destruct tk; try reflexivity. rewrite Pend. reflexivity.
      * cbn [andb]. destruct tk; try reflexivity. rewrite Pend. reflexivity.
      * cbn [andb]. destruct tk; try reflexivity. rewrite Pend. reflexivity.
    + cbn [spec_dops dop_ok dpending_after zn Z.of_N Z.eqb]. rewrite (IH next s P D Hn Ok), andb_true_r. cbn [andb].
      destruct tk; try reflexivity. destruct (mem_n inv P); reflexivity.
  - (* consume *)
    cbn [n_dcreates] in Hn. cbn [dops_ok] in Ok.
    assert (Unk : forall inv, tk = TkInvite inv -> mem_n inv P = false -> get_token_type (sy_pm s) tk (p_key p) = None)
      by (intros inv Et M; subst tk; eapply agree_unknown; eassumption).
    destruct (get_token_type (sy_pm s) tk (p_key p)) as [t|] eqn:G.
    2:{ cbn [spec_dops dop_ok zn Z.of_N Z.eqb].
        assert (PA : dpending_after P (DConsume tk p) 0 0 = P) by (destruct tk; reflexivity). rewrite PA.
        rewrite (IH next s P D Hn Ok), andb_true_r. destruct tk; try reflexivity. destruct (mem_n inv P); reflexivity. }
    assert (Hin : In (tk, t) (pm_tokens (sy_pm s))).
    { unfold get_token_type in G. destruct (find _ (pm_tokens (sy_pm s))) as [e|] eqn:F; [|discriminate G].
      inversion G. apply find_some in F. destruct F as [Hin He]. apply andb_true_iff in He. destruct He as [He _].
      apply token_eqb_eq in He. destruct e as [e1 e2]. cbn [fst snd] in *. subst. exact Hin. }
    assert (Pend : forall inv, tk = TkInvite inv -> mem_n inv P = true).
    { intros inv Et. destruct (mem_n inv P) eqn:M; [reflexivity|]. specialize (Unk inv Et M). discriminate Unk. }
    destruct t as [q|j|j a0 sg0].
    + cbn [spec_dops dop_ok zn Z.of_N Z.eqb Pos.eqb].
      assert (PA : dpending_after P (DConsume tk p) 1 0 = P) by (destruct tk; reflexivity). rewrite PA.
      rewrite (IH next s P D Hn Ok), andb_true_r. destruct tk; try reflexivity. rewrite (Pend inv eq_refl). reflexivity.
    + (* an owned invitation *)
      assert (Etk : tk = TkInvite j) by (apply (proj1 (ag_placed _ _ _ _ A _ Hin) j); reflexivity).
      subst tk.
      pose proof (da_link_o _ _ _ _ D _ _ Hin) as Jo.
      cbn [spec_dops dop_ok dpending_after zn Z.of_N Z.eqb Pos.eqb]. rewrite (Pend j eq_refl). cbn [andb].
      set (m1 := push (sy_pm s) (token_of (pm_secret (sy_pm s)) (p_pub p)) (TAllowed (p_key p))).
      set (m' := {| pm_app := pm_app m1; pm_secret := pm_secret m1;
                    pm_tokens := remove_first (TkInvite j) (is_owned j) (pm_tokens m1) |}).
      assert (CC : invite_accepted (sy_pm s) (TOwned j) p = Some m') by reflexivity.
      unfold consume_owned. rewrite CC.
      assert (A' : agree next total m' (drop_n j P)).
      { apply (agree_consume next total m1 P j (is_owned j) m').
        - unfold m1. apply agree_push_allowed. exact A.
        - intros x Hx. unfold registered. apply andb_true_iff in Hx. destruct Hx as [H1 H2]. rewrite H1, H2. reflexivity.
        - exists (TkInvite j, TOwned j). split; [unfold m1, push; cbn [pm_tokens]; apply in_or_app; left; exact Hin|].
          cbn [fst snd token_eqb is_owned]. rewrite !N.eqb_refl. reflexivity.
        - reflexivity. }
      assert (Gone : mem_n j (drop_n j P) = false) by (rewrite mem_n_drop, N.eqb_refl, andb_false_r; reflexivity).
      assert (Sub : forall e, In e (pm_tokens m') -> In e (pm_tokens (sy_pm s)) \/ e = (token_of (pm_secret (sy_pm s)) (p_pub p), TAllowed (p_key p))).
      { intros e He. unfold m' in He. cbn [pm_tokens] in He. apply remove_first_incl in He. apply In_push in He. exact He. }
      set (s' := {| sy_pm := m'; sy_next := sy_next s; sy_db_owned := filter (fun i => negb (N.eqb i j)) (sy_db_owned s);
                    sy_db_invites := sy_db_invites s; sy_db_allowed := add_allowed (sy_db_allowed s) p |}).
      change (pm_app (sy_pm s)) with (pm_app (sy_pm s')). apply (IH next); [|exact Hn|exact Ok].
      constructor; cbn [sy_pm sy_db_owned sy_db_invites sy_next s']; try apply D.
      * exact A'.
      * apply NoDup_filter. exact (da_dbo_nodup _ _ _ _ D).
      * intros i. rewrite mem_n_drop, filter_neq_existsb, (da_db _ _ _ _ D i).
        destruct (N.eqb i j) eqn:Ei; cbn [negb].
        -- apply N.eqb_eq in Ei. subst i. rewrite (da_excl _ _ _ _ D j Jo), !andb_false_r. reflexivity.
        -- rewrite !andb_true_r. reflexivity.
      * intros i Hi. apply filter_In in Hi. apply (da_excl _ _ _ _ D). apply Hi.
      * intros i Hi. apply filter_In in Hi. apply (da_dbo_lt _ _ _ _ D). apply Hi.
      * intros t i Hi. apply filter_In. destruct (Sub _ Hi) as [H|Ee]; [|discriminate Ee].
        split; [eapply (da_link_o _ _ _ _ D); exact H|].
        destruct (N.eqb i j) eqn:Ei; [|reflexivity]. apply N.eqb_eq in Ei. subst i. exfalso.
        eapply (no_entry_when_gone next total m' (drop_n j P) j t (TOwned j) A' Gone Hi). left. reflexivity.
      * intros t i a sg Hi. destruct (Sub _ Hi) as [H|Ee]; [eapply (da_link_i _ _ _ _ D); exact H | discriminate Ee].
    + (* a received invitation *)
      assert (Etk : tk = TkInvite j) by (apply (proj2 (ag_placed _ _ _ _ A _ Hin) j a0 sg0); reflexivity).
      subst tk.
      pose proof (da_link_i _ _ _ _ D _ _ _ _ Hin) as Ji.
      assert (Jo : ~ In j (sy_db_owned s)) by (intro H; rewrite (da_excl _ _ _ _ D j H) in Ji; discriminate Ji).
      destruct (match sg0 with Some k0 => N.eqb k0 (p_key p) | None => false end).
      2:{ cbn [spec_dops dop_ok dpending_after zn Z.of_N Z.eqb Pos.eqb]. rewrite (Pend j eq_refl). cbn [andb]. apply (IH next); assumption. }
      cbn [spec_dops dop_ok dpending_after zn Z.of_N Z.eqb Pos.eqb]. rewrite (Pend j eq_refl). cbn [andb].
      set (m1 := push (sy_pm s) (token_of (pm_secret (sy_pm s)) (p_pub p)) (TAllowed (p_key p))).
      set (m' := {| pm_app := pm_app m1; pm_secret := pm_secret m1;
                    pm_tokens := remove_first (TkInvite j) (is_invite j) (pm_tokens m1) |}).
      assert (CC : invite_accepted (sy_pm s) (TInvite j a0 sg0) p = Some m') by reflexivity.
      unfold consume_invite. rewrite CC.
      assert (A' : agree next total m' (drop_n j P)).
      { apply (agree_consume next total m1 P j (is_invite j) m').
        - unfold m1. apply agree_push_allowed. exact A.
        - intros x Hx. unfold registered. apply andb_true_iff in Hx. destruct Hx as [H1 H2]. rewrite H1, H2. apply orb_true_r.
        - exists (TkInvite j, TInvite j a0 sg0). split; [unfold m1, push; cbn [pm_tokens]; apply in_or_app; left; exact Hin|].
          cbn [fst snd token_eqb is_invite]. rewrite !N.eqb_refl. reflexivity.
        - reflexivity. }
      assert (Gone : mem_n j (drop_n j P) = false) by (rewrite mem_n_drop, N.eqb_refl, andb_false_r; reflexivity).
      assert (Sub : forall e, In e (pm_tokens m') -> In e (pm_tokens (sy_pm s)) \/ e = (token_of (pm_secret (sy_pm s)) (p_pub p), TAllowed (p_key p))).
      { intros e He. unfold m' in He. cbn [pm_tokens] in He. apply remove_first_incl in He. apply In_push in He. exact He. }
      set (s' := {| sy_pm := m'; sy_next := sy_next s; sy_db_owned := sy_db_owned s;
                    sy_db_invites := filter (fun x => negb (N.eqb (fst (fst x)) j)) (sy_db_invites s);
                    sy_db_allowed := add_allowed (sy_db_allowed s) p |}).
      change (pm_app (sy_pm s)) with (pm_app (sy_pm s')). apply (IH next); [|exact Hn|exact Ok].
      constructor; cbn [sy_pm sy_db_owned sy_db_invites sy_next s']; try apply D.
      * exact A'.
      * apply NoDup_map_filter. exact (da_dbi_uniq _ _ _ _ D).
      * intros i. rewrite mem_n_drop, filter_id_idin, (da_db _ _ _ _ D i).
        destruct (N.eqb i j) eqn:Ei; cbn [negb].
        -- apply N.eqb_eq in Ei. subst i. rewrite (existsb_eqb_notin j _ Jo), !andb_false_r. reflexivity.
        -- rewrite !andb_true_r. reflexivity.
      * intros i Hi. rewrite filter_id_idin, (da_excl _ _ _ _ D i Hi). reflexivity.
      * intros x Hx. apply filter_In in Hx. apply (da_dbi_rng _ _ _ _ D). apply Hx.
      * intros t i Hi. destruct (Sub _ Hi) as [H|Ee]; [eapply (da_link_o _ _ _ _ D); exact H | discriminate Ee].
      * intros t i a sg Hi. destruct (Sub _ Hi) as [H|Ee]; [|discriminate Ee].
        rewrite filter_id_idin, (da_link_i _ _ _ _ D _ _ _ _ H). cbn [andb].
        destruct (N.eqb i j) eqn:Ei; [|reflexivity]. apply N.eqb_eq in Ei. subst i. exfalso.
        eapply (no_entry_when_gone next total m' (drop_n j P) j t (TInvite j a sg) A' Gone Hi). right. exists a, sg. reflexivity.
  - (* restart *)
    cbn [n_dcreates] in Hn. cbn [dops_ok] in Ok.
    cbn [spec_dops dop_ok dpending_after andb].
    set (s' := {| sy_pm := rebuild mk s; sy_next := sy_next s; sy_db_owned := sy_db_owned s;
                  sy_db_invites := sy_db_invites s; sy_db_allowed := sy_db_allowed s |}).
    change (pm_app (sy_pm s)) with (pm_app (sy_pm s')). apply (IH next); [|exact Hn|exact Ok].
    apply dagree_restart. exact D.
Qed.

Lemma init_dagree : forall app me mk total, dagree 1 total (init_sys app me mk) [].
Proof.
  intros. constructor; cbn [init_sys sy_pm sy_db_owned sy_db_invites sy_next].
  - apply (init_agree app me mk total).
  - constructor.
  - constructor.
  - intros i. reflexivity.
  - intros i [].
  - intros i [].
  - intros x [].
  - intros t i H. cbn in H. destruct H as [H|[]]. discriminate H.
  - intros t i a sg H. cbn in H. destruct H as [H|[]]. discriminate H.
  - reflexivity.
Qed.

(* HOLDS (fixes 2163820, 1e2cdf6, 1c5e321, 4354588) for every history of creations (with or without
   default room, grantable or not), acceptances (foreign invitations and the instance's own ones),
   lookups, uses and RESTARTS: an invitation is consumed only while pending, and a consumption ends
   it — across restarts too *)
Theorem invdb_holds : forall app me mk ops, dops_ok 1 (n_dcreates ops) ops = true ->
  spec_dops app [] ops (run_dops mk (init_sys app me mk) ops) = true.
Proof.
  intros app me mk ops Ok.
  change app with (pm_app (sy_pm (init_sys app me mk))) at 1.
  apply (spec_dops_run mk (n_dcreates ops) ops 1); [apply init_dagree | lia | exact Ok].
Qed.

(* ================================================================ run / spec, all three families *)
Definition case_ok (c : c19case) : Prop :=
  match c with
  | CTokens secs probes => secs_fun secs /\ forall p, In p probes -> (fst p < length secs)%nat /\ (snd p < length secs)%nat
  | CInvites _ _ _ ops => ops_ok 1 (n_creates ops) ops = true
  | CSession nonces conns => length nonces = length conns /\ NoDup nonces
  | CInvDb _ _ _ ops => dops_ok 1 (n_dcreates ops) ops = true
  | _ => True
  end.

Lemma probes_defined : forall secs probes,
  (forall p, In p probes -> (fst p < length secs)%nat /\ (snd p < length secs)%nat) ->
  exists ts, all_some (map (probe_token secs) probes) = Some ts.
Proof.
  intros secs. induction probes as [|p r IH]; intros H; [exists []; reflexivity|].
  destruct (IH (fun q Hq => H q (or_intror Hq))) as [ts Hts].
  destruct (H p (or_introl eq_refl)) as [H1 H2].
  apply nth_error_Some in H1, H2.
  destruct (nth_error secs (fst p)) as [a|] eqn:A; [|congruence].
  destruct (nth_error secs (snd p)) as [b|] eqn:B; [|congruence].
  exists (token_of a (s_pub b) :: ts). cbn [map all_some]. unfold probe_token at 1. rewrite A, B, Hts. reflexivity.
Qed.

Theorem run_spec_outside_known : forall c, case_ok c -> known_C19 c = [] -> spec_C19 c (run_C19 c) = true.
Proof.
  intros c Ok K. destruct c as [ch lk t r ev | app me mk ops | secs probes | nonces conns | app me mk dops | lk cconns]; cbn [spec_C19 run_C19].
  - apply handshake_spec.
  - apply invite_holds. exact Ok.
  - destruct Ok as [F D]. destruct (probes_defined secs probes D) as [ts Hts]. rewrite Hts.
    apply spec_tokens_run; [exact F | apply known_tokens_no_clash; exact K | exact Hts].
  - destruct Ok as [L ND]. apply session_spec; assumption.
  - apply invdb_holds. exact Ok.
  - apply serve_conn_spec.
Qed.

Lemma tokens_refuted :
  let c := CTokens [{| s_bytes := 1; s_pub := 7 |}; {| s_bytes := 2; s_pub := 7 |}] [(0, 1); (1, 0)]%nat in
  run_C19 c = [0]%Z /\ spec_C19 c (run_C19 c) = false /\ known_C19 c = [2]%Z.
Proof. vm_compute. repeat split; reflexivity. Qed.

Lemma handshake_nonvacuous :
  let honest := Ans {| a_key := 2; a_sig_by := Some 2; a_sig_over := 0; a_room := false; a_entity_ok := true; a_rowsig_ok := true; a_pubkey_ok := true |} in
  let other := Ans {| a_key := 3; a_sig_by := Some 3; a_sig_over := 0; a_room := false; a_entity_ok := true; a_rowsig_ok := true; a_pubkey_ok := true |} in
  let replay := Ans {| a_key := 2; a_sig_by := Some 2; a_sig_over := 5; a_room := false; a_entity_ok := true; a_rowsig_ok := true; a_pubkey_ok := true |} in
  init_connection 0 1 (TAllowed 2) honest true = (ROkTrue, [EBind 2; EvReady; MConnected 2]) /\
  init_connection 0 1 (TAllowed 2) other true = (RErr, []) /\
  init_connection 0 1 (TAllowed 2) replay true = (RErr, []) /\
  init_connection 0 1 (TOwned 1) other true = (ROkTrue, [EBind 3; MInviteAccepted 3; EvReady; MConnected 3]).
Proof. vm_compute. repeat split; reflexivity. Qed.
