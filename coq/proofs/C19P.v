(* C19P.v — proofs for C19 (handshake, invitations, meeting tokens). *)
From DV Require Import Handshake Run_C19.
From Coq Require Import Lia.
Local Open Scope N_scope.

(* ================================================================ meeting tokens *)
Section TokenSym.
  Variables (sec pubk shared tok : Type).
  Variable pub_of : sec -> pubk.
  Variable dh : sec -> pubk -> shared.
  Variable h_shared : shared -> tok.
  Variable h_self : sec -> tok.
  Variable pubk_eqb : pubk -> pubk -> bool.
  Hypothesis pubk_eqb_eq : forall a b, pubk_eqb a b = true <-> a = b.
  Hypothesis dh_comm : forall a b, dh a (pub_of b) = dh b (pub_of a).       (* Diffie-Hellman *)

  (* both sides derive the same token — provided two secrets with one public key are one secret *)
  Theorem meeting_token_sym : forall a b, (pub_of a = pub_of b -> a = b) ->
    meeting_token sec pubk shared tok pub_of dh h_shared h_self pubk_eqb a (pub_of b) =
    meeting_token sec pubk shared tok pub_of dh h_shared h_self pubk_eqb b (pub_of a).
  Proof.
    intros a b Inj. unfold meeting_token.
    destruct (pubk_eqb (pub_of b) (pub_of a)) eqn:E1; destruct (pubk_eqb (pub_of a) (pub_of b)) eqn:E2.
    - apply pubk_eqb_eq in E2. rewrite (Inj E2). reflexivity.
    - apply pubk_eqb_eq in E1. symmetry in E1. apply pubk_eqb_eq in E1. congruence.
    - apply pubk_eqb_eq in E2. symmetry in E2. apply pubk_eqb_eq in E2. congruence.
    - rewrite dh_comm. reflexivity.
  Qed.
End TokenSym.

Lemma token_eqb_eq : forall a b, token_eqb a b = true <-> a = b.
Proof.
  intros [x|x1 x2|x|] [y|y1 y2|y|]; cbn [token_eqb]; split; intro H; try discriminate; try reflexivity.
  - apply N.eqb_eq in H. congruence.
  - inversion H. apply N.eqb_refl.
  - apply andb_true_iff in H. destruct H as [H1 H2]. apply N.eqb_eq in H1, H2. congruence.
  - inversion H. rewrite !N.eqb_refl. reflexivity.
  - apply N.eqb_eq in H. congruence.
  - inversion H. apply N.eqb_refl.
Qed.

Lemma token_of_sym : forall a b, (s_pub a = s_pub b -> s_bytes a = s_bytes b) ->
  token_of a (s_pub b) = token_of b (s_pub a).
Proof.
  intros a b Inj. unfold token_of, meeting_token, dh_pair. cbn [fst snd].
  rewrite (N.eqb_sym (s_pub a) (s_pub b)).
  destruct (N.eqb (s_pub b) (s_pub a)) eqn:E.
  - apply N.eqb_eq in E. rewrite (Inj (eq_sym E)). reflexivity.
  - rewrite (N.min_comm (s_pub a)), (N.max_comm (s_pub a)). reflexivity.
Qed.

(* refuted at full strength: two byte strings that clamp to the same scalar *)
Lemma token_sym_refuted :
  let a := {| s_bytes := 1; s_pub := 7 |} in let b := {| s_bytes := 2; s_pub := 7 |} in
  token_of a (s_pub b) <> token_of b (s_pub a).
Proof. cbv. discriminate. Qed.

(* in the idealised token space (no 56-bit collisions) tokens tell pairs of public keys apart *)
Lemma token_of_pair : forall a b c d,
  (forall x y : secret, In x [a; c] -> In y [a; c] -> s_bytes x = s_bytes y -> s_pub x = s_pub y) ->
  token_of a (s_pub b) = token_of c (s_pub d) ->
  (N.min (s_pub a) (s_pub b), N.max (s_pub a) (s_pub b)) = (N.min (s_pub c) (s_pub d), N.max (s_pub c) (s_pub d)).
Proof.
  intros a b c d F H. unfold token_of, meeting_token, dh_pair in H. cbn [fst snd] in H.
  destruct (N.eqb (s_pub b) (s_pub a)) eqn:E1; destruct (N.eqb (s_pub d) (s_pub c)) eqn:E2; try discriminate H.
  - apply N.eqb_eq in E1, E2. inversion H as [Hb].
    assert (s_pub a = s_pub c) by (apply F; [left; reflexivity | right; left; reflexivity | exact Hb]).
    rewrite E1, E2, H0. reflexivity.
  - inversion H. reflexivity.
Qed.

(* ================================================================ handshake *)
Lemma zn_inj : forall a b, zn a = zn b -> a = b.
Proof. unfold zn. intros a b H. lia. Qed.

(* accepted => the remote proved, on THIS challenge, the key that is then bound, reported and served *)
Theorem auth_holds : forall ch lk t r ev es,
  init_connection ch lk t r ev = (ROkTrue, es) ->
  exists a, r = Ans a /\ proof_ok ch a = true /\ peer_row_ok a = true /\ entitled ch t r = Some (a_key a) /\
            In (EBind (a_key a)) es /\
            (forall k, In (EBind k) es \/ In (MInviteAccepted k) es \/ In (MConnected k) es -> k = a_key a).
Proof.
  intros ch lk t r ev es H. destruct r as [|a]; [discriminate H|].
  exists a. split; [reflexivity|].
  unfold init_connection in H.
  destruct (proof_ok ch a) eqn:P; cbn [negb] in H; [|discriminate H].
  destruct (peer_row_ok a) eqn:V; cbn [negb] in H; [|discriminate H].
  split; [reflexivity|]. split; [reflexivity|].
  assert (Ent0 : (match a_sig_by a with Some s => N.eqb s (a_key a) | None => false end)
                 && N.eqb (a_sig_over a) ch && negb (a_room a) && a_entity_ok a && a_rowsig_ok a && a_pubkey_ok a = true).
  { unfold proof_ok in P. unfold peer_row_ok in V.
    destruct (a_sig_by a) as [s|]; [|discriminate P].
    apply andb_true_iff in P. destruct P as [P1 P2]. rewrite P1, P2. cbn [andb].
    exact V. }
  unfold entitled. rewrite Ent0. cbn [andb].
  destruct t as [expected|inv|inv ap signer].
  - destruct (N.eqb expected (a_key a)) eqn:E; [|discriminate H].
    destruct (N.eqb lk (a_key a)); destruct ev; inversion H; subst es; cbn [In];
      (split; [reflexivity|]); (split; [left; reflexivity|]);
      intros k [K|[K|K]]; repeat (destruct K as [K|K]; try discriminate K; try (inversion K; reflexivity)); destruct K.
  - destruct ev; inversion H; subst es; cbn [app In];
      (split; [reflexivity|]); (split; [left; reflexivity|]);
      intros k [K|[K|K]]; repeat (destruct K as [K|K]; try discriminate K; try (inversion K; reflexivity)); destruct K.
  - destruct signer as [s|]; [|discriminate H].
    destruct (N.eqb s (a_key a)) eqn:E; [|discriminate H].
    destruct ev; inversion H; subst es; cbn [app In];
      (split; [reflexivity|]); (split; [left; reflexivity|]);
      intros k [K|[K|K]]; repeat (destruct K as [K|K]; try discriminate K; try (inversion K; reflexivity)); destruct K.
Qed.

(* a remote that is not entitled gets nothing: no key bound, no event, no message, no success *)
Theorem fail_holds : forall ch lk t r ev,
  entitled ch t r = None ->
  snd (init_connection ch lk t r ev) = [] /\ fst (init_connection ch lk t r ev) <> ROkTrue.
Proof.
  intros ch lk t r ev H. destruct r as [|a]; [split; [reflexivity | discriminate]|].
  unfold entitled in H. unfold init_connection, proof_ok, peer_row_ok.
  destruct (a_sig_by a) as [s|]; cbn [andb negb] in *; [|split; [reflexivity | discriminate]].
  destruct (N.eqb s (a_key a)); cbn [andb negb] in *; [|split; [reflexivity | discriminate]].
  destruct (N.eqb (a_sig_over a) ch); cbn [andb negb] in *; [|split; [reflexivity | discriminate]].
  destruct (a_room a); cbn [andb negb] in *; [split; [reflexivity | discriminate]|].
  destruct (a_entity_ok a); cbn [andb negb] in *; [|split; [reflexivity | discriminate]].
  destruct (a_rowsig_ok a); cbn [andb negb] in *; [|split; [reflexivity | discriminate]].
  destruct (a_pubkey_ok a); cbn [andb negb] in *; [|split; [reflexivity | discriminate]].
  destruct t as [expected|inv|inv ap signer].
  - destruct (N.eqb expected (a_key a)); [discriminate H | split; [reflexivity | discriminate]].
  - discriminate H.
  - destruct signer as [s'|]; [|split; [reflexivity | discriminate]].
    destruct (N.eqb s' (a_key a)); [discriminate H | split; [reflexivity | discriminate]].
Qed.

(* the property's oracle holds on every observation the model can produce (any remote behaviour) *)
Theorem handshake_spec : forall ch lk t r ev,
  spec_handshake ch t r (obs_handshake (init_connection ch lk t r ev)) = true.
Proof.
  intros ch lk t r ev. unfold spec_handshake.
  destruct (entitled ch t r) as [k|] eqn:Ent.
  - (* entitled: whatever happens is for key k *)
    destruct r as [|a]; [discriminate Ent|].
    assert (Hk : k = a_key a).
    { unfold entitled in Ent. destruct (_ && _) in Ent; [inversion Ent; reflexivity | discriminate Ent]. }
    subst k. clear Ent.
    unfold init_connection.
    destruct (negb (proof_ok ch a)); [reflexivity|].
    destruct (negb (peer_row_ok a)); [reflexivity|].
    destruct t as [expected|inv|inv ap signer].
    + destruct (N.eqb expected (a_key a)); [|reflexivity].
      destruct (N.eqb lk (a_key a)); destruct ev; cbv -[zn Z.eqb orb andb a_key]; rewrite ?Z.eqb_refl, ?orb_true_r; reflexivity.
    + destruct ev; cbv -[zn Z.eqb orb andb a_key]; rewrite ?Z.eqb_refl, ?orb_true_r; reflexivity.
    + destruct signer as [s|]; [|reflexivity].
      destruct (N.eqb s (a_key a)); [|reflexivity].
      destruct ev; cbv -[zn Z.eqb orb andb a_key]; rewrite ?Z.eqb_refl, ?orb_true_r; reflexivity.
  - destruct (fail_holds ch lk t r ev Ent) as [F1 F2].
    destruct (init_connection ch lk t r ev) as [res es]. cbn [fst snd] in F1, F2. subst es.
    destruct res; try (exfalso; apply F2; reflexivity); reflexivity.
Qed.

(* ================================================================ invitations *)
Definition no_foreign_invite_token (m : pm) (seen : list N) : Prop :=
  forall inv t, In (TkInvite inv, t) (pm_tokens m) -> mem_n inv seen = true.

Lemma mem_n_cons : forall x y l, mem_n x l = true -> mem_n x (y :: l) = true.
Proof. intros x y l H. unfold mem_n in *. cbn [existsb]. rewrite H. apply orb_true_r. Qed.
Lemma mem_n_head : forall x l, mem_n x (x :: l) = true.
Proof. intros x l. unfold mem_n. cbn [existsb]. rewrite N.eqb_refl. reflexivity. Qed.

Lemma remove_first_incl : forall tk p l e, In e (remove_first tk p l) -> In e l.
Proof.
  induction l as [|x l IH]; intros e H; cbn [remove_first] in H; [exact H|].
  destruct (token_eqb (fst x) tk && p (snd x)); [right; exact H|].
  destruct H as [H|H]; [left; exact H | right; apply IH; exact H].
Qed.

Lemma token_of_not_invite : forall s p inv, token_of s p <> TkInvite inv.
Proof. intros s p inv. unfold token_of, meeting_token. destruct (N.eqb p (s_pub s)); discriminate. Qed.

Lemma lookup_unseen : forall m seen inv k, no_foreign_invite_token m seen -> mem_n inv seen = false ->
  get_token_type m (TkInvite inv) k = None.
Proof.
  intros m seen inv k I H. unfold get_token_type.
  destruct (find _ (pm_tokens m)) as [e|] eqn:F; [|reflexivity].
  apply find_some in F. destruct F as [Hin He]. apply andb_true_iff in He. destruct He as [He _].
  apply token_eqb_eq in He. destruct e as [tk t]. cbn [fst] in He. subst tk.
  rewrite (I inv t Hin) in H. discriminate.
Qed.

Lemma consume_preserves : forall m seen t p m', no_foreign_invite_token m seen ->
  invite_accepted m t p = Some m' -> no_foreign_invite_token m' seen /\ pm_app m' = pm_app m.
Proof.
  intros m seen t p m' I H. unfold invite_accepted in H.
  assert (P : no_foreign_invite_token (push m (token_of (pm_secret m) (p_pub p)) (TAllowed (p_key p))) seen).
  { intros inv t0 Hin. unfold push in Hin. cbn [pm_tokens] in Hin. apply in_app_or in Hin.
    destruct Hin as [Hin|[Hin|[]]]; [eapply I; exact Hin|].
    inversion Hin as [[E1 E2]]. exfalso. eapply token_of_not_invite. exact E1. }
  destruct t as [k|inv|inv a s]; inversion H; subst m'; cbn [pm_app]; (split; [|reflexivity]);
    intros i t0 Hin; cbn [pm_tokens] in Hin; apply remove_first_incl in Hin; eapply P; exact Hin.
Qed.

(* the per-operation part of the oracle holds on the model's answers, from any state that only holds
   invitation tokens of invitations seen so far *)
Lemma spec_ops_run : forall ops next m seen, no_foreign_invite_token m seen ->
  spec_ops (pm_app m) seen ops (run_ops next m ops) = true.
Proof.
  induction ops as [|op ops IH]; intros next m seen I; [reflexivity|].
  cbn [run_ops].
  destruct op as [|b|tr k|tr p]; cbn [step].
  - (* create *)
    cbn [spec_ops op_ok seen_after andb].
    change (pm_app m) with (pm_app (create_invite m next)). apply IH.
    intros i t Hin. unfold create_invite, push in Hin. cbn [pm_tokens] in Hin. apply in_app_or in Hin.
    unfold zn. rewrite N2Z.id.
    destruct Hin as [Hin|[Hin|[]]]; [apply mem_n_cons; eapply I; exact Hin|].
    inversion Hin; subst. apply mem_n_head.
  - (* accept *)
    destruct b as [|inv app signer]; cbn [accept_invite].
    + cbn [spec_ops op_ok seen_after Z.eqb andb]. apply IH. exact I.
    + destruct (N.eqb app (pm_app m)) eqn:E.
      * cbn [spec_ops op_ok seen_after Z.eqb]. rewrite E. cbn [andb].
        change (pm_app m) with (pm_app (push m (TkInvite inv) (TInvite inv app signer))). apply IH.
        intros i t Hin. unfold push in Hin. cbn [pm_tokens] in Hin. apply in_app_or in Hin.
        destruct Hin as [Hin|[Hin|[]]]; [apply mem_n_cons; eapply I; exact Hin|].
        inversion Hin; subst. apply mem_n_head.
      * cbn [spec_ops op_ok seen_after Z.eqb andb]. apply IH. exact I.
  - (* lookup *)
    destruct (lookup_obs (get_token_type m (tok_of_ref m tr) k)) as [a b] eqn:L.
    cbn [spec_ops]. rewrite (IH next m (seen_after seen (OLookup tr k) a b)) by (cbn [seen_after]; exact I).
    rewrite andb_true_r. cbn [op_ok]. apply andb_true_iff. split.
    + (* an allowed-peer answer names the claimed key *)
      destruct (get_token_type m (tok_of_ref m tr) k) as [t|] eqn:G; [|inversion L; reflexivity].
      unfold get_token_type in G. destruct (find _ (pm_tokens m)) as [e|] eqn:F; [|discriminate G].
      inversion G; subst t. apply find_some in F. destruct F as [_ He]. apply andb_true_iff in He. destruct He as [_ He].
      destruct (snd e) as [p|i|i ap s]; cbn [lookup_obs] in L; inversion L; subst; try reflexivity.
      cbn [entry_matches] in He. apply N.eqb_eq in He. subst p. cbn [Z.eqb]. apply Z.eqb_refl.
    + destruct tr as [inv|p|]; try reflexivity. cbn [tok_of_ref] in L.
      destruct (mem_n inv seen) eqn:M; [reflexivity|].
      rewrite (lookup_unseen m seen inv k I M) in L. inversion L. reflexivity.
  - (* consume *)
    assert (Unseen : forall inv, tr = RInv inv -> mem_n inv seen = false ->
                     get_token_type m (tok_of_ref m tr) (p_key p) = None).
    { intros inv E M. subst tr. cbn [tok_of_ref]. eapply lookup_unseen; eassumption. }
    destruct (get_token_type m (tok_of_ref m tr) (p_key p)) as [t|] eqn:G.
    + assert (Seen : match tr with RInv inv => mem_n inv seen = true | _ => True end).
      { destruct tr as [inv|q|]; try exact Logic.I. destruct (mem_n inv seen) eqn:M; [reflexivity|].
        specialize (Unseen inv eq_refl M). discriminate Unseen. }
      destruct t as [k|inv|inv a s].
      * cbn [spec_ops op_ok seen_after]. rewrite (IH next m seen I). rewrite andb_true_r.
        destruct tr as [inv|q|]; try reflexivity. rewrite Seen. reflexivity.
      * destruct (invite_accepted m (TOwned inv) p) as [m'|] eqn:C.
        -- destruct (consume_preserves _ _ _ _ _ I C) as [I' A].
           cbn [spec_ops op_ok seen_after]. rewrite <- A. rewrite (IH next m' seen I'). rewrite andb_true_r.
           destruct tr as [i|q|]; try reflexivity. rewrite Seen. reflexivity.
        -- cbn [spec_ops op_ok seen_after]. rewrite (IH next m seen I). rewrite andb_true_r.
           destruct tr as [i|q|]; try reflexivity. rewrite Seen. reflexivity.
      * destruct (invite_accepted m (TInvite inv a s) p) as [m'|] eqn:C.
        -- destruct (consume_preserves _ _ _ _ _ I C) as [I' A].
           cbn [spec_ops op_ok seen_after]. rewrite <- A. rewrite (IH next m' seen I'). rewrite andb_true_r.
           destruct tr as [i|q|]; try reflexivity. rewrite Seen. reflexivity.
        -- cbn [spec_ops op_ok seen_after]. rewrite (IH next m seen I). rewrite andb_true_r.
           destruct tr as [i|q|]; try reflexivity. rewrite Seen. reflexivity.
    + cbn [lookup_obs fst spec_ops op_ok seen_after]. rewrite (IH next m seen I). rewrite andb_true_r.
      destruct tr as [inv|q|]; try reflexivity. destruct (mem_n inv seen); reflexivity.
Qed.

Lemma init_pm_no_foreign : forall app me mk, no_foreign_invite_token (init_pm app me mk) [].
Proof. intros app me mk inv t Hin. cbn in Hin. destruct Hin as [Hin|[]]. discriminate Hin. Qed.

Lemma table_holds : forall app me mk ops, spec_ops app [] ops (run_ops 1 (init_pm app me mk) ops) = true.
Proof. intros app me mk ops. exact (spec_ops_run ops 1 (init_pm app me mk) [] (init_pm_no_foreign app me mk)). Qed.

Lemma successes_le_attempts : forall inv ops obs, (successes inv ops obs <= attempts inv ops)%nat.
Proof.
  intros inv. induction ops as [|op ops IH]; intros obs; [destruct obs; cbn; lia|].
  destruct obs as [|a [|b obs]]; cbn [successes]; try lia.
  specialize (IH obs).
  destruct op as [|bs|tr k|tr p]; cbn [attempts]; try lia.
  destruct tr as [i|q|]; try lia.
  destruct (N.eqb i inv); cbn [andb]; [|lia].
  destruct ((Z.eqb a 2 || Z.eqb a 3) && Z.eqb b 1); lia.
Qed.

(* ---- an invitation is consumed at most as often as it was registered; w = count received
        invitations too (false: only the ones this instance created) ---- *)
Definition regsel (w : bool) (inv : N) (e : token * ttype) : bool :=
  token_eqb (fst e) (TkInvite inv) && (is_owned inv (snd e) || (w && is_invite inv (snd e))).
Definition cntw (w : bool) (inv : N) (l : list (token * ttype)) : nat := length (filter (regsel w inv) l).
Fixpoint succw (w : bool) (inv : N) (ops : list pmop) (obs : list Z) : nat :=
  match ops, obs with
  | op :: r, a :: b :: obs' =>
      ((match op with
        | OConsume (RInv i) _ => if N.eqb i inv && (Z.eqb a 2 || (w && Z.eqb a 3)) && Z.eqb b 1 then 1 else 0
        | _ => 0
        end) + succw w inv r obs')%nat
  | _, _ => O
  end.
(* registrations still to come: the create that gets rank inv, and (w) the accepts of inv *)
Definition futw (w : bool) (app inv next : N) (ops : list pmop) : nat :=
  ((if N.leb next inv && N.ltb inv (next + n_creates ops) then 1 else 0) + (if w then accepts app inv ops else 0))%nat.
(* invitation entries sit under their own token *)
Definition placed (l : list (token * ttype)) : Prop :=
  (forall tk i, In (tk, TOwned i) l -> tk = TkInvite i) /\ (forall tk i a s, In (tk, TInvite i a s) l -> tk = TkInvite i).

Lemma cntw_app : forall w inv l1 l2, cntw w inv (l1 ++ l2) = (cntw w inv l1 + cntw w inv l2)%nat.
Proof. intros. unfold cntw. rewrite filter_app, app_length. reflexivity. Qed.

Lemma remove_first_cnt_le : forall w inv tk p l, (cntw w inv (remove_first tk p l) <= cntw w inv l)%nat.
Proof.
  intros w inv tk p. induction l as [|e l IH]; [cbn; lia|].
  cbn [remove_first]. destruct (token_eqb (fst e) tk && p (snd e)).
  - unfold cntw. cbn [filter]. destruct (regsel w inv e); cbn [length]; lia.
  - unfold cntw in *. cbn [filter]. destruct (regsel w inv e); cbn [length]; lia.
Qed.

Lemma remove_first_cnt_dec : forall w inv p l,
  (forall e, token_eqb (fst e) (TkInvite inv) && p (snd e) = true -> regsel w inv e = true) ->
  (exists e, In e l /\ token_eqb (fst e) (TkInvite inv) && p (snd e) = true) ->
  S (cntw w inv (remove_first (TkInvite inv) p l)) = cntw w inv l.
Proof.
  intros w inv p l Sub. induction l as [|e l IH]; intros [x [Hin Hx]]; [destruct Hin|].
  cbn [remove_first]. destruct (token_eqb (fst e) (TkInvite inv) && p (snd e)) eqn:E.
  - unfold cntw. cbn [filter]. rewrite (Sub e E). reflexivity.
  - destruct Hin as [Hin|Hin]; [subst x; rewrite E in Hx; discriminate|].
    unfold cntw in *. cbn [filter]. destruct (regsel w inv e); cbn [length]; [f_equal|]; apply IH; exists x; split; assumption.
Qed.

Lemma placed_push_allowed : forall l tk k, placed l -> placed (l ++ [(tk, TAllowed k)]).
Proof.
  intros l tk k [P1 P2]. split.
  - intros t i Hin. apply in_app_or in Hin. destruct Hin as [Hin|[Hin|[]]]; [apply P1; exact Hin | discriminate Hin].
  - intros t i a s Hin. apply in_app_or in Hin. destruct Hin as [Hin|[Hin|[]]]; [eapply P2; exact Hin | discriminate Hin].
Qed.
Lemma placed_remove : forall tk p l, placed l -> placed (remove_first tk p l).
Proof.
  intros tk p l [P1 P2]. split.
  - intros t i Hin. apply P1. eapply remove_first_incl. exact Hin.
  - intros t i a s Hin. eapply P2. eapply remove_first_incl. exact Hin.
Qed.

Lemma fut_create : forall w app inv next ops,
  ((if regsel w inv (TkInvite next, TOwned next) then 1 else 0) + futw w app inv (N.succ next) ops = futw w app inv next (OCreate :: ops))%nat.
Proof.
  intros w app inv next ops. unfold futw, regsel. cbn [fst snd token_eqb is_owned is_invite n_creates accepts].
  rewrite andb_false_r, orb_false_r, andb_diag.
  destruct (N.eqb next inv) eqn:E.
  - apply N.eqb_eq in E. subst inv.
    replace (N.leb (N.succ next) next) with false by (symmetry; apply N.leb_gt; lia).
    replace (N.leb next next) with true by (symmetry; apply N.leb_le; lia).
    replace (N.ltb next (next + N.succ (n_creates ops))) with true by (symmetry; apply N.ltb_lt; lia).
    cbn [andb]. lia.
  - apply N.eqb_neq in E.
    replace (N.leb (N.succ next) inv && N.ltb inv (N.succ next + n_creates ops))
       with (N.leb next inv && N.ltb inv (next + N.succ (n_creates ops))); [lia|].
    destruct (N.leb next inv) eqn:L1; destruct (N.leb (N.succ next) inv) eqn:L2;
      destruct (N.ltb inv (next + N.succ (n_creates ops))) eqn:L3; destruct (N.ltb inv (N.succ next + n_creates ops)) eqn:L4;
      try reflexivity; exfalso;
      repeat match goal with
             | H : N.leb _ _ = true |- _ => apply N.leb_le in H
             | H : N.leb _ _ = false |- _ => apply N.leb_gt in H
             | H : N.ltb _ _ = true |- _ => apply N.ltb_lt in H
             | H : N.ltb _ _ = false |- _ => apply N.ltb_ge in H
             end; lia.
Qed.

Theorem consumed_le_registered : forall w inv ops next m, placed (pm_tokens m) ->
  (succw w inv ops (run_ops next m ops) <= cntw w inv (pm_tokens m) + futw w (pm_app m) inv next ops)%nat.
Proof.
  intros w inv. induction ops as [|op ops IH]; intros next m P; [cbn; lia|].
  cbn [run_ops].
  destruct op as [|b|tr k|tr p]; cbn [step].
  - (* create *)
    cbn [succw].
    assert (P' : placed (pm_tokens (create_invite m next))).
    { destruct P as [P1 P2]. unfold create_invite, push. cbn [pm_tokens]. split.
      - intros t j Hin. apply in_app_or in Hin. destruct Hin as [Hin|[Hin|[]]]; [apply P1; exact Hin | inversion Hin; reflexivity].
      - intros t j a s Hin. apply in_app_or in Hin. destruct Hin as [Hin|[Hin|[]]]; [eapply P2; exact Hin | discriminate Hin]. }
    specialize (IH (N.succ next) (create_invite m next) P').
    change (pm_app (create_invite m next)) with (pm_app m) in IH.
    assert (C : cntw w inv (pm_tokens (create_invite m next)) =
                (cntw w inv (pm_tokens m) + (if regsel w inv (TkInvite next, TOwned next) then 1 else 0))%nat).
    { unfold create_invite, push. cbn [pm_tokens]. rewrite cntw_app. f_equal. unfold cntw. cbn [filter].
      destruct (regsel w inv (TkInvite next, TOwned next)); reflexivity. }
    pose proof (fut_create w (pm_app m) inv next ops) as F. lia.
  - (* accept *)
    destruct (accept_invite m b) as [m'|] eqn:A; cbn [succw].
    + destruct b as [|i a s]; [discriminate A|]. cbn [accept_invite] in A.
      destruct (N.eqb a (pm_app m)) eqn:Ea; [|discriminate A]. inversion A; subst m'.
      assert (P' : placed (pm_tokens (push m (TkInvite i) (TInvite i a s)))).
      { destruct P as [P1 P2]. unfold push. cbn [pm_tokens]. split.
        - intros t j Hin. apply in_app_or in Hin. destruct Hin as [Hin|[Hin|[]]]; [apply P1; exact Hin | discriminate Hin].
        - intros t j a0 s0 Hin. apply in_app_or in Hin. destruct Hin as [Hin|[Hin|[]]]; [eapply P2; exact Hin | inversion Hin; reflexivity]. }
      specialize (IH next _ P'). change (pm_app (push m (TkInvite i) (TInvite i a s))) with (pm_app m) in IH.
      assert (C : cntw w inv (pm_tokens (push m (TkInvite i) (TInvite i a s))) =
                  (cntw w inv (pm_tokens m) + (if w && N.eqb i inv then 1 else 0))%nat).
      { unfold push. cbn [pm_tokens]. rewrite cntw_app. f_equal. unfold cntw, regsel. cbn [filter fst snd token_eqb is_owned is_invite].
        destruct w; destruct (N.eqb i inv); reflexivity. }
      unfold futw in *. cbn [n_creates accepts]. rewrite Ea.
      destruct w; cbn [andb] in *; [|lia]. rewrite andb_true_r. destruct (N.eqb i inv); lia.
    + specialize (IH next m P). unfold futw in *. cbn [n_creates accepts].
      destruct b as [|i a s]; [lia|]. cbn [accept_invite] in A.
      destruct (N.eqb a (pm_app m)); [discriminate A|]. rewrite andb_false_r. destruct w; lia.
  - (* lookup *)
    destruct (lookup_obs (get_token_type m (tok_of_ref m tr) k)) as [a b].
    cbn [succw]. specialize (IH next m P). unfold futw in *. cbn [n_creates accepts]. lia.
  - (* consume *)
    assert (Fut : futw w (pm_app m) inv next (OConsume tr p :: ops) = futw w (pm_app m) inv next ops) by reflexivity.
    rewrite Fut.
    destruct (get_token_type m (tok_of_ref m tr) (p_key p)) as [t|] eqn:G.
    2:{ cbn [lookup_obs fst succw]. specialize (IH next m P).
        destruct tr as [i|q|]; try lia. cbn [Z.eqb]. rewrite andb_false_r. lia. }
    assert (Found : exists e, In e (pm_tokens m) /\ token_eqb (fst e) (tok_of_ref m tr) = true /\ snd e = t).
    { unfold get_token_type in G. destruct (find _ (pm_tokens m)) as [e|] eqn:F; [|discriminate G].
      inversion G. apply find_some in F. destruct F as [Hin He]. apply andb_true_iff in He.
      exists e. repeat split; [exact Hin | apply He]. }
    destruct Found as [e [Hin [Htk Ht]]].
    destruct t as [k|j|j a s].
    + cbn [lookup_obs fst succw]. specialize (IH next m P).
      destruct tr as [i|q|]; try lia. cbn [Z.eqb]. rewrite andb_false_r. lia.
    + (* an owned invitation j: it sits under TkInvite j and is taken out *)
      assert (Etk : tok_of_ref m tr = TkInvite j).
      { apply token_eqb_eq in Htk. rewrite <- Htk. destruct e as [tk t0]. cbn [fst snd] in *. subst t0. apply (proj1 P). exact Hin. }
      set (m1 := push m (token_of (pm_secret m) (p_pub p)) (TAllowed (p_key p))).
      set (m' := {| pm_app := pm_app m1; pm_secret := pm_secret m1;
                    pm_tokens := remove_first (TkInvite j) (is_owned j) (pm_tokens m1) |}).
      assert (CC : invite_accepted m (TOwned j) p = Some m') by reflexivity.
      rewrite CC.
      assert (P1 : placed (pm_tokens m1)) by (unfold m1, push; cbn [pm_tokens]; apply placed_push_allowed; exact P).
      assert (P' : placed (pm_tokens m')) by (unfold m'; cbn [pm_tokens]; apply placed_remove; exact P1).
      assert (C1 : cntw w inv (pm_tokens m1) = cntw w inv (pm_tokens m)).
      { unfold m1, push. cbn [pm_tokens]. rewrite cntw_app. unfold cntw at 2, regsel. cbn [filter fst snd is_owned is_invite].
        rewrite andb_false_r, orb_false_l, andb_false_r. cbn [length]. lia. }
      specialize (IH next m' P'). change (pm_app m') with (pm_app m) in IH.
      cbn [lookup_obs fst succw].
      pose proof (remove_first_cnt_le w inv (TkInvite j) (is_owned j) (pm_tokens m1)) as R.
      change (remove_first (TkInvite j) (is_owned j) (pm_tokens m1)) with (pm_tokens m') in R.
      destruct tr as [i|q|]; try lia.
      cbn [tok_of_ref] in Etk. inversion Etk; subst i.
      destruct (N.eqb j inv) eqn:Ej; cbn [andb]; [|lia].
      apply N.eqb_eq in Ej. subst j. cbn [Z.eqb Pos.eqb orb andb].
      assert (D : S (cntw w inv (pm_tokens m')) = cntw w inv (pm_tokens m1)).
      { unfold m'. cbn [pm_tokens]. apply remove_first_cnt_dec.
        - intros x Hx. unfold regsel. apply andb_true_iff in Hx. destruct Hx as [H1 H2]. rewrite H1, H2. reflexivity.
        - exists e. split.
          + unfold m1, push. cbn [pm_tokens]. apply in_or_app. left. exact Hin.
          + cbn [tok_of_ref] in Htk. rewrite Htk, Ht. cbn [is_owned]. rewrite N.eqb_refl. reflexivity. }
      lia.
    + (* a received invitation j *)
      assert (Etk : tok_of_ref m tr = TkInvite j).
      { apply token_eqb_eq in Htk. rewrite <- Htk. destruct e as [tk t0]. cbn [fst snd] in *. subst t0. eapply (proj2 P). exact Hin. }
      set (m1 := push m (token_of (pm_secret m) (p_pub p)) (TAllowed (p_key p))).
      set (m' := {| pm_app := pm_app m1; pm_secret := pm_secret m1;
                    pm_tokens := remove_first (TkInvite j) (is_invite j) (pm_tokens m1) |}).
      assert (CC : invite_accepted m (TInvite j a s) p = Some m') by reflexivity.
      rewrite CC.
      assert (P1 : placed (pm_tokens m1)) by (unfold m1, push; cbn [pm_tokens]; apply placed_push_allowed; exact P).
      assert (P' : placed (pm_tokens m')) by (unfold m'; cbn [pm_tokens]; apply placed_remove; exact P1).
      assert (C1 : cntw w inv (pm_tokens m1) = cntw w inv (pm_tokens m)).
      { unfold m1, push. cbn [pm_tokens]. rewrite cntw_app. unfold cntw at 2, regsel. cbn [filter fst snd is_owned is_invite].
        rewrite andb_false_r, orb_false_l, andb_false_r. cbn [length]. lia. }
      specialize (IH next m' P'). change (pm_app m') with (pm_app m) in IH.
      cbn [lookup_obs fst succw].
      pose proof (remove_first_cnt_le w inv (TkInvite j) (is_invite j) (pm_tokens m1)) as R.
      change (remove_first (TkInvite j) (is_invite j) (pm_tokens m1)) with (pm_tokens m') in R.
      destruct tr as [i|q|]; try lia.
      cbn [tok_of_ref] in Etk. inversion Etk; subst i.
      destruct (N.eqb j inv) eqn:Ej; cbn [andb]; [|lia].
      apply N.eqb_eq in Ej. subst j. cbn [Z.eqb Pos.eqb orb].
      destruct w; cbn [andb]; [|lia].
      assert (D : S (cntw true inv (pm_tokens m')) = cntw true inv (pm_tokens m1)).
      { unfold m'. cbn [pm_tokens]. apply remove_first_cnt_dec.
        - intros x Hx. unfold regsel. apply andb_true_iff in Hx. destruct Hx as [H1 H2]. rewrite H1, H2. cbn [andb]. apply orb_true_r.
        - exists e. split.
          + unfold m1, push. cbn [pm_tokens]. apply in_or_app. left. exact Hin.
          + cbn [tok_of_ref] in Htk. rewrite Htk, Ht. cbn [is_invite]. rewrite N.eqb_refl. reflexivity. }
      lia.
Qed.

Lemma init_placed : forall app me mk, placed (pm_tokens (init_pm app me mk)).
Proof.
  intros. split.
  - intros t i Hin. cbn in Hin. destruct Hin as [Hin|[]]. discriminate Hin.
  - intros t i a s Hin. cbn in Hin. destruct Hin as [Hin|[]]. discriminate Hin.
Qed.

(* HOLDS (repaired by 2163820), every history: an invitation this instance created is consumed at most once *)
Theorem invite_holds : forall app me mk ops inv,
  (succw false inv ops (run_ops 1 (init_pm app me mk) ops) <= 1)%nat.
Proof.
  intros app me mk ops inv.
  pose proof (consumed_le_registered false inv ops 1 (init_pm app me mk) (init_placed app me mk)) as G.
  unfold futw in G. cbn [cntw init_pm pm_tokens filter regsel fst snd token_eqb andb length] in G.
  destruct (N.leb 1 inv && N.ltb inv (1 + n_creates ops)); lia.
Qed.

Lemma succw_true : forall inv ops obs, succw true inv ops obs = successes inv ops obs.
Proof.
  intros inv. induction ops as [|op ops IH]; intros obs; [reflexivity|].
  destruct obs as [|a [|b obs]]; try reflexivity. cbn [succw successes]. rewrite IH. reflexivity.
Qed.

(* every invitation, every history: consumed at most as often as it was registered *)
Theorem consumed_le_registrations : forall app me mk ops inv,
  (successes inv ops (run_ops 1 (init_pm app me mk) ops) <= registrations app inv ops)%nat.
Proof.
  intros app me mk ops inv. rewrite <- succw_true.
  pose proof (consumed_le_registered true inv ops 1 (init_pm app me mk) (init_placed app me mk)) as G.
  unfold futw in G. cbn [cntw init_pm pm_tokens pm_app filter regsel fst snd token_eqb andb length] in G.
  unfold registrations.
  replace (N.leb 1 inv && N.leb inv (n_creates ops)) with (N.leb 1 inv && N.ltb inv (1 + n_creates ops)); [lia|].
  f_equal. destruct (N.ltb inv (1 + n_creates ops)) eqn:A; destruct (N.leb inv (n_creates ops)) eqn:B; try reflexivity; exfalso;
    repeat match goal with
           | H : N.leb _ _ = true |- _ => apply N.leb_le in H
           | H : N.leb _ _ = false |- _ => apply N.leb_gt in H
           | H : N.ltb _ _ = true |- _ => apply N.ltb_lt in H
           | H : N.ltb _ _ = false |- _ => apply N.ltb_ge in H
           end; lia.
Qed.

(* outside class 3 (an invitation registered more than once AND presented more than once) single use holds *)
Lemma single_use_outside_known : forall app me mk ops,
  existsb (fun inv => Nat.ltb 1 (registrations app inv ops) && Nat.ltb 1 (attempts inv ops)) (invs_of ops) = false ->
  forallb (fun inv => Nat.leb (successes inv ops (run_ops 1 (init_pm app me mk) ops)) 1) (invs_of ops) = true.
Proof.
  intros app me mk ops H. apply forallb_forall. intros inv Hin.
  assert (A : Nat.ltb 1 (registrations app inv ops) && Nat.ltb 1 (attempts inv ops) = false).
  { destruct (Nat.ltb 1 (registrations app inv ops) && Nat.ltb 1 (attempts inv ops)) eqn:E; [|reflexivity].
    assert (X : existsb (fun inv => Nat.ltb 1 (registrations app inv ops) && Nat.ltb 1 (attempts inv ops)) (invs_of ops) = true)
      by (apply existsb_exists; exists inv; split; assumption).
    rewrite X in H. discriminate. }
  apply Nat.leb_le.
  pose proof (successes_le_attempts inv ops (run_ops 1 (init_pm app me mk) ops)) as S1.
  pose proof (consumed_le_registrations app me mk ops inv) as S2.
  apply andb_false_iff in A. destruct A as [A|A]; apply Nat.ltb_ge in A; lia.
Qed.

(* the witness of the repaired class now passes; the remaining class 3 witness *)
Definition twice : list pmop :=
  [OCreate; OConsume (RInv 1) {| p_key := 2; p_pub := 2 |}; OConsume (RInv 1) {| p_key := 3; p_pub := 3 |};
   OLookup (RPeer {| p_key := 2; p_pub := 2 |}) 2; OLookup (RPeer {| p_key := 3; p_pub := 3 |}) 3].
Definition me0 : secret := {| s_bytes := 1; s_pub := 1 |}.
Lemma invite_witness_now_holds :
  run_C19 (CInvites 1 me0 1 twice) = [1; 1; 2; 1; 0; 0; 1; 2; 0; 0]%Z /\
  successes 1 twice (run_C19 (CInvites 1 me0 1 twice)) = 1%nat /\
  spec_C19 (CInvites 1 me0 1 twice) (run_C19 (CInvites 1 me0 1 twice)) = true /\
  known_C19 (CInvites 1 me0 1 twice) = [].
Proof. vm_compute. repeat split; reflexivity. Qed.

Definition accepted_twice : list pmop :=
  [OAccept (InviteFor 7 1 (Some 2)); OAccept (InviteFor 7 1 (Some 2));
   OConsume (RInv 7) {| p_key := 2; p_pub := 2 |}; OConsume (RInv 7) {| p_key := 2; p_pub := 2 |}; OConsume (RInv 7) {| p_key := 2; p_pub := 2 |}].
Lemma reregistered_refuted :
  run_C19 (CInvites 1 me0 1 accepted_twice) = [1; 0; 1; 0; 3; 1; 3; 1; 0; 0]%Z /\
  successes 7 accepted_twice (run_C19 (CInvites 1 me0 1 accepted_twice)) = 2%nat /\
  spec_C19 (CInvites 1 me0 1 accepted_twice) (run_C19 (CInvites 1 me0 1 accepted_twice)) = false /\
  known_C19 (CInvites 1 me0 1 accepted_twice) = [3]%Z.
Proof. vm_compute. repeat split; reflexivity. Qed.

(* ================================================================ tokens: run/spec *)
Definition secs_fun (secs : list secret) : Prop :=
  forall x y, In x secs -> In y secs -> s_bytes x = s_bytes y -> s_pub x = s_pub y.
Definition no_clash (secs : list secret) (probes : list (nat * nat)) : Prop :=
  forall p a b, In p probes -> nth_error secs (fst p) = Some a -> nth_error secs (snd p) = Some b ->
                s_pub a = s_pub b -> s_bytes a = s_bytes b.

Lemma all_some_map : forall {A B} (f : A -> option B) l ts, all_some (map f l) = Some ts ->
  length ts = length l /\ forall i x, nth_error l i = Some x -> exists t, f x = Some t /\ nth_error ts i = Some t.
Proof.
  intros A B f. induction l as [|a l IH]; intros ts H; cbn [map all_some] in H.
  - inversion H. split; [reflexivity|]. intros [|i] x Hx; discriminate Hx.
  - destruct (f a) as [t|] eqn:Fa; [|discriminate H].
    destruct (all_some (map f l)) as [ts'|] eqn:R; [|discriminate H]. inversion H; subst ts.
    destruct (IH ts' eq_refl) as [L N]. split; [cbn; lia|].
    intros [|i] x Hx; cbn [nth_error] in *.
    + inversion Hx; subst x. exists t. split; [exact Fa | reflexivity].
    + apply N. exact Hx.
Qed.

Lemma row_ok_map : forall secs p t qs us,
  Forall2 (fun q u => probe_rel secs p q (zb (token_eqb t u)) = true) qs us ->
  row_ok secs p qs (map (fun u => zb (token_eqb t u)) us) = true.
Proof.
  intros secs p t qs us H. induction H as [|q u qs us Hq _ IH]; [reflexivity|].
  cbn [map row_ok]. rewrite Hq, IH. reflexivity.
Qed.

Lemma probe_rel_tokens : forall secs p q t u,
  secs_fun secs ->
  (forall a b, nth_error secs (fst p) = Some a -> nth_error secs (snd p) = Some b -> s_pub a = s_pub b -> s_bytes a = s_bytes b) ->
  probe_token secs p = Some t -> probe_token secs q = Some u ->
  probe_rel secs p q (zb (token_eqb t u)) = true.
Proof.
  intros secs p q t u F NC Hp Hq. unfold probe_token in Hp, Hq.
  destruct (nth_error secs (fst p)) as [a|] eqn:Pa; [|discriminate Hp].
  destruct (nth_error secs (snd p)) as [b|] eqn:Pb; [|discriminate Hp].
  destruct (nth_error secs (fst q)) as [c|] eqn:Qc; [|discriminate Hq].
  destruct (nth_error secs (snd q)) as [d|] eqn:Qd; [|discriminate Hq].
  inversion Hp; subst t. inversion Hq; subst u. clear Hp Hq.
  unfold probe_rel. apply andb_true_iff. split.
  - destruct (Nat.eqb (fst p) (snd q) && Nat.eqb (snd p) (fst q)) eqn:S; [|reflexivity].
    apply andb_true_iff in S. destruct S as [S1 S2]. apply Nat.eqb_eq in S1, S2.
    rewrite S1 in Pa. rewrite S2 in Pb.
    assert (Ed : d = a) by congruence. assert (Ec : c = b) by congruence. subst c d.
    rewrite (token_of_sym a b (NC a b eq_refl eq_refl)).
    assert (E : token_eqb (token_of b (s_pub a)) (token_of b (s_pub a)) = true) by (apply token_eqb_eq; reflexivity).
    rewrite E. reflexivity.
  - unfold pair_of. rewrite Pa, Pb, Qc, Qd. cbn [pair_eqb].
    destruct (N.eqb (N.min (s_pub a) (s_pub b)) (N.min (s_pub c) (s_pub d)) && N.eqb (N.max (s_pub a) (s_pub b)) (N.max (s_pub c) (s_pub d))) eqn:E; [reflexivity|].
    destruct (token_eqb (token_of a (s_pub b)) (token_of c (s_pub d))) eqn:T; [|reflexivity].
    exfalso. apply token_eqb_eq in T.
    assert (Fa : forall x y : secret, In x [a; c] -> In y [a; c] -> s_bytes x = s_bytes y -> s_pub x = s_pub y).
    { intros x y Hx Hy. apply F.
      - destruct Hx as [Hx|[Hx|[]]]; subst x; eapply nth_error_In; eassumption.
      - destruct Hy as [Hy|[Hy|[]]]; subst y; eapply nth_error_In; eassumption. }
    pose proof (token_of_pair a b c d Fa T) as PE. inversion PE as [[E1 E2]].
    rewrite E1, E2, !N.eqb_refl in E. discriminate E.
Qed.

Lemma spec_tokens_run : forall secs probes ts,
  secs_fun secs -> no_clash secs probes ->
  all_some (map (probe_token secs) probes) = Some ts ->
  spec_tokens secs probes (eq_matrix ts) = true.
Proof.
  intros secs. induction probes as [|p r IH]; intros ts F NC H.
  - cbn in H. inversion H. reflexivity.
  - cbn [map all_some] in H.
    destruct (probe_token secs p) as [t|] eqn:Pp; [|discriminate H].
    destruct (all_some (map (probe_token secs) r)) as [us|] eqn:R; [|discriminate H]. inversion H; subst ts.
    destruct (all_some_map _ _ _ R) as [L N].
    cbn [eq_matrix spec_tokens].
    assert (Lm : length (map (fun u => zb (token_eqb t u)) us) = length r) by (rewrite map_length; exact L).
    rewrite <- Lm. rewrite firstn_app, Nat.sub_diag, firstn_all. cbn [firstn]. rewrite app_nil_r.
    rewrite skipn_app, Nat.sub_diag, skipn_all. cbn [skipn app].
    apply andb_true_iff. split.
    + apply row_ok_map.
      (* pointwise over r / us *)
      clear IH H Lm. revert us R L N. induction r as [|q r IHr]; intros us R L N.
      * destruct us; [constructor | discriminate L].
      * destruct us as [|u us]; [discriminate L|].
        cbn [map all_some] in R. destruct (probe_token secs q) as [u'|] eqn:Pq; [|discriminate R].
        destruct (all_some (map (probe_token secs) r)) as [us'|] eqn:R'; [|discriminate R]. inversion R; subst u' us'.
        constructor.
        -- apply probe_rel_tokens; try assumption.
           intros a b Ha Hb. eapply NC; [left; reflexivity | exact Ha | exact Hb].
        -- apply IHr.
           ++ intros p0 a b Hin. apply NC. destruct Hin as [Hin|Hin]; [left; exact Hin | right; right; exact Hin].
           ++ reflexivity.
           ++ cbn in L. lia.
           ++ destruct (all_some_map _ _ _ R') as [_ N']. exact N'.
    + apply IH; try assumption; [|reflexivity]. intros p0 a b Hin. apply NC. right. exact Hin.
Qed.

(* known class 2 is exactly the negation of no_clash *)
Lemma known_tokens_no_clash : forall secs probes, known_C19 (CTokens secs probes) = [] -> no_clash secs probes.
Proof.
  intros secs probes K p a b Hin Ha Hb Hp. cbn [known_C19] in K.
  destruct (existsb _ probes) eqn:E; [discriminate K|].
  destruct (N.eqb (s_bytes a) (s_bytes b)) eqn:B; [apply N.eqb_eq; exact B|].
  exfalso. assert (X : existsb (fun p => match nth_error secs (fst p), nth_error secs (snd p) with
                           | Some a, Some b => N.eqb (s_pub a) (s_pub b) && negb (N.eqb (s_bytes a) (s_bytes b))
                           | _, _ => false end) probes = true).
  { apply existsb_exists. exists p. split; [exact Hin|]. rewrite Ha, Hb, Hp, N.eqb_refl, B. reflexivity. }
  rewrite X in E. discriminate.
Qed.

(* ================================================================ run / spec, all three families *)
Definition case_ok (c : c19case) : Prop :=
  match c with
  | CTokens secs probes => secs_fun secs /\ forall p, In p probes -> (fst p < length secs)%nat /\ (snd p < length secs)%nat
  | _ => True
  end.

Lemma probes_defined : forall secs probes,
  (forall p, In p probes -> (fst p < length secs)%nat /\ (snd p < length secs)%nat) ->
  exists ts, all_some (map (probe_token secs) probes) = Some ts.
Proof.
  intros secs. induction probes as [|p r IH]; intros H; [exists []; reflexivity|].
  destruct (IH (fun q Hq => H q (or_intror Hq))) as [ts Hts].
  destruct (H p (or_introl eq_refl)) as [H1 H2].
  apply nth_error_Some in H1, H2.
  destruct (nth_error secs (fst p)) as [a|] eqn:A; [|congruence].
  destruct (nth_error secs (snd p)) as [b|] eqn:B; [|congruence].
  exists (token_of a (s_pub b) :: ts). cbn [map all_some]. unfold probe_token at 1. rewrite A, B, Hts. reflexivity.
Qed.

Theorem run_spec_outside_known : forall c, case_ok c -> known_C19 c = [] -> spec_C19 c (run_C19 c) = true.
Proof.
  intros c Ok K. destruct c as [ch lk t r ev | app me mk ops | secs probes]; cbn [spec_C19 run_C19].
  - apply handshake_spec.
  - unfold spec_invites. apply andb_true_iff. split.
    + apply table_holds.
    + apply single_use_outside_known. cbn [known_C19] in K. destruct (existsb _ (invs_of ops)); [discriminate K | reflexivity].
  - destruct Ok as [F D]. destruct (probes_defined secs probes D) as [ts Hts]. rewrite Hts.
    apply spec_tokens_run; [exact F | apply known_tokens_no_clash; exact K | exact Hts].
Qed.

Lemma tokens_refuted :
  let c := CTokens [{| s_bytes := 1; s_pub := 7 |}; {| s_bytes := 2; s_pub := 7 |}] [(0, 1); (1, 0)]%nat in
  run_C19 c = [0]%Z /\ spec_C19 c (run_C19 c) = false /\ known_C19 c = [2]%Z.
Proof. vm_compute. repeat split; reflexivity. Qed.

Lemma handshake_nonvacuous :
  let honest := Ans {| a_key := 2; a_sig_by := Some 2; a_sig_over := 0; a_room := false; a_entity_ok := true; a_rowsig_ok := true; a_pubkey_ok := true |} in
  let other := Ans {| a_key := 3; a_sig_by := Some 3; a_sig_over := 0; a_room := false; a_entity_ok := true; a_rowsig_ok := true; a_pubkey_ok := true |} in
  let replay := Ans {| a_key := 2; a_sig_by := Some 2; a_sig_over := 5; a_room := false; a_entity_ok := true; a_rowsig_ok := true; a_pubkey_ok := true |} in
  init_connection 0 1 (TAllowed 2) honest true = (ROkTrue, [EBind 2; EvReady; MConnected 2]) /\
  init_connection 0 1 (TAllowed 2) other true = (RErr, []) /\
  init_connection 0 1 (TAllowed 2) replay true = (RErr, []) /\
  init_connection 0 1 (TOwned 1) other true = (ROkTrue, [EBind 3; MInviteAccepted 3; EvReady; MConnected 3]).
Proof. vm_compute. repeat split; reflexivity. Qed.
