#!/usr/bin/env python3
"""extract_c20_conn.py /repo /verif/coq/gen  ->  gen/C20ConnFacts.v

The C20 harness drives the real RoomLockService, the real process_acquired_room (through its verif
hook) and the real cleanup, but it PLAYS two pieces of src/synchronisation/peer_inbound_service.rs
itself: the lock branch of the select! loop of LocalPeerService::start (take the oldest grant, call
process_acquired_room) and what follows the loop (read acquired_lock, cleanup, close and drain the
lock channel).
This translator re-reads those pieces (and the facts about the service the model and the harness'
quiescence protocol rely on) from /repo's working tree on every run and emits them as constants;
proofs/C20P.v states what the model assumes about them (`conn_facts_as_modelled`), so an edit of
these pieces breaks a proof obligation instead of going unnoticed.

Deliberately syntactic; refuses (exit 1: tie reported broken; the file generated from the last recognised
source is left in place so that the search for a failing input can still run) when the code is no longer recognised."""
import re, sys, os


class Refuse(Exception):
    pass


def read(p):
    with open(p) as f:
        return f.read()


def strip_comments(s):
    return re.sub(r"//[^\n]*", "", s)


def block_at(s, o):
    assert s[o] == "{"
    d = 0
    for i in range(o, len(s)):
        if s[i] == "{": d += 1
        elif s[i] == "}":
            d -= 1
            if d == 0: return i
    raise Refuse("unbalanced braces")


def norm(s):
    return " ".join(s.split())


def main():
    repo, out = sys.argv[1], sys.argv[2]
    lock = strip_comments(read(os.path.join(repo, "src/synchronisation/room_locking_service.rs")))
    inb = strip_comments(read(os.path.join(repo, "src/synchronisation/peer_inbound_service.rs")))

    # 1. the release message
    m = re.search(r"pub enum SyncLockMessage\s*\{(.*?)\n\}", lock, flags=re.S)
    if not m: raise Refuse("enum SyncLockMessage not found")
    body = norm(m.group(1))
    if re.search(r"\bUnlock\(Uid\)", body): owner = False
    elif re.search(r"\bUnlock\(\[u8; 32\], Uid\)", body): owner = True
    else: raise Refuse("SyncLockMessage::Unlock not recognised: " + body)
    if not re.search(r"RequestLock\(\[u8; 32\], VecDeque<Uid>, mpsc::UnboundedSender<Uid>\)", body): raise Refuse("SyncLockMessage::RequestLock not recognised")
    m = re.search(r"static LOCK_CHANNEL_SIZE: usize = (\d+);", lock)
    if not m: raise Refuse("LOCK_CHANNEL_SIZE not found")
    chan = int(m.group(1))
    if "mpsc::channel::<SyncLockMessage>(LOCK_CHANNEL_SIZE)" not in lock: raise Refuse("the service channel is not bounded by LOCK_CHANNEL_SIZE")
    # the service handles one message completely before it receives the next
    if not re.search(r"while let Some\(msg\) = receiver\.recv\(\)\.await \{\s*match msg \{", lock): raise Refuse("service loop not recognised")

    # 2. process_acquired_room: the task always unlocks
    m = re.search(r"async fn process_acquired_room\(", inb)
    if not m: raise Refuse("process_acquired_room not found")
    o = inb.index("{", inb.index(")", m.end())); o = inb.index("{", inb.index("->", m.end()))
    c = block_at(inb, o)
    par = norm(inb[o + 1:c])
    sp = re.search(r"tokio::spawn\(async move \{", par)
    if not sp: raise Refuse("process_acquired_room: spawn not recognised")
    task = par[sp.end():]
    shape = (r"^\s*\{ acquired_lock\.lock\(\)\.await\.insert\(room\); \} "
             r"match Self::synchronise_room\(room, &query_service, peer_service, &discret_services\) \.await \{ "
             r"Ok\(_\) => \{ .*? \} Err\(_e\) => \{ .*? \} \}; "
             r"lock_service\.unlock\((circuit_id, )?room\)\.await; acquired_lock\.lock\(\)\.await\.remove\(&room\); \}\); Ok\(\(\)\)$")
    tm = re.match(shape, task)
    task_always_unlocks = bool(tm) and ("return" not in task) and ("?" not in task.split("lock_service.unlock")[0])
    if not tm: raise Refuse("process_acquired_room: task body not recognised")

    # 3. the lock branch of the select! loop and what follows the loop
    m = re.search(r"pub fn start\(\s*mut remote_event: Receiver<RemoteEvent>", inb)
    if not m: raise Refuse("LocalPeerService::start not found")
    o = inb.index("{", inb.index(") {", m.end()) + 1) if False else inb.index("{", inb.index(")", inb.index("discret_services: &DiscretServices", m.end())))
    c = block_at(inb, o)
    st = inb[o + 1:c]
    if "let (lock_reply, mut lock_receiver) = mpsc::unbounded_channel::<Uid>();" not in st: raise Refuse("lock channel not recognised")
    lm = re.search(r"\bloop \{\s*tokio::select! \{", st)
    if not lm: raise Refuse("select loop not found")
    lo = st.index("{", lm.start()); lc = block_at(st, lo)
    loop_body, after = norm(st[lo:lc + 1]), norm(st[lc + 1:])
    takes = re.search(r"msg = lock_receiver\.recv\(\) =>\{ match msg\{ Some\(room\) => \{ if let Err\(_e\) =Self::process_acquired_room\( (circuit_id, )?room, acquired_lock\.clone\(\), query_service\.clone\(\), lock_service\.clone\(\), peer_service\.clone\(\), &discret_services, \) \.await \{", loop_body)
    if not takes: raise Refuse("lock branch of the select loop not recognised")
    # the rooms still held are copied out of acquired_lock: by a push loop or by an iterator chain
    end_shape = (r"^let (\w+) = acquired_lock\.lock\(\)\.await; "
                 r"(?:let mut rooms: Vec<Uid> = Vec::new\(\); for room in \1\.iter\(\) \{ rooms\.push\(\*room\); \}"
                 r"|let rooms: Vec<Uid> = \1\.iter\(\)\.(?:copied|cloned)\(\)\.collect\(\);) "
                 r"Self::cleanup\(&lock_service, (circuit_id, )?rooms\)\.await; (.*)$")
    em = re.match(end_shape, after)
    if not em: raise Refuse("end of the connection task not recognised: " + after[:160])
    rest = em.group(3)
    drains = bool(re.search(r"lock_receiver\.close\(\); while let Some\(room\) = lock_receiver\.recv\(\)\.await \{ lock_service\.unlock\((circuit_id, )?room\)\.await; \}", rest))
    if (not drains) and ("lock_receiver" in rest): raise Refuse("end of the connection task uses lock_receiver in an unrecognised way")
    cm = re.search(r"pub async fn cleanup\(lock_service: &RoomLockService, (circuit_id: \[u8; 32\], )?rooms: Vec<Uid>\) \{ for room in rooms \{ lock_service\.unlock\((circuit_id, )?room\)\.await; \} \}", norm(inb))
    if not cm: raise Refuse("cleanup not recognised")

    b = lambda x: "true" if x else "false"
    text = "\n".join([
        "(* C20ConnFacts.v — GENERATED by tools/extract_c20_conn.py from /repo/src/synchronisation/{room_locking_service,peer_inbound_service}.rs.",
        "   Do not edit: regenerated on every ./chk run. *)",
        "Definition unlock_carries_owner : bool := %s.       (* SyncLockMessage::Unlock names the releasing connection *)" % b(owner),
        "Definition lock_channel_size : nat := %d.              (* capacity of the service's message channel *)" % chan,
        "Definition task_always_unlocks : bool := %s.         (* every exit path of a room task sends Unlock(room), then leaves acquired_lock *)" % b(task_always_unlocks),
        "Definition loop_spawns_oldest_grant : bool := true.     (* the select! loop hands the next room of lock_receiver to process_acquired_room *)",
        "Definition end_unlocks_acquired : bool := true.         (* after the loop: cleanup(every room in acquired_lock) *)",
        "Definition end_drains_lock_channel : bool := %s.     (* after the loop: grants still in lock_receiver are released *)" % b(drains),
        ""])
    os.makedirs(out, exist_ok=True)
    target = os.path.join(out, "C20ConnFacts.v")
    if not (os.path.exists(target) and read(target) == text):
        with open(target, "w") as f:
            f.write(text)
    print("C20ConnFacts.v: owner=%s channel=%d drains=%s" % (owner, chan, drains))


if __name__ == "__main__":
    try:
        main()
    except Refuse as e:
        # exit 1: ./chk reports the tie as broken.  The previously generated file is left in place so that the
        # models still compile and ./chk can go on searching for a failing input on the implementation's behaviour.
        print("extract_c20_conn: REFUSED: %s (gen/C20ConnFacts.v left as generated from the last recognised source)" % e)
        sys.exit(1)
