#!/bin/bash
# usage: tools/test_patch.sh <patch file> <name> <property id> [more ids]
# applies the patch to a scratch worktree /tmp/tp_<name> of /repo HEAD (never to /repo itself), runs the checks against
# it with ./chk --repo (own harness copy and target directory work/alt_<name>), prints the verdict lines, removes both.
PATCH=$1; NAME=$2; shift; shift
export CHK_ALT_NAME=$NAME
WT=/tmp/tp_$NAME
git -C /repo worktree remove --force $WT 2>/dev/null
git -C /repo worktree add -q $WT HEAD || exit 2
if ! git -C $WT apply $PATCH 2>/dev/null; then
  if ! git -C $WT apply -3 $PATCH; then echo "PATCH-DOES-NOT-APPLY $PATCH"; git -C /repo worktree remove --force $WT; exit 3; fi
fi
for P in "$@"; do
  echo "== seed $NAME vs check $P"
  (cd /verif && ./chk check $P --repo $WT 2>&1 | grep -v "^KNOWN-FINDING\|^note: listed" | tail -6 | cut -c1-400)
done
git -C /repo worktree remove --force $WT
rm -rf /verif/work/alt_$NAME
