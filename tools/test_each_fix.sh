#!/bin/bash
# runs the unit suite (guard off) at every commit of /repo after BASE in a scratch worktree; prints one line per commit
BASE=${1:-0097d99}
WT=/tmp/fixcheck
git -C /repo worktree remove --force $WT 2>/dev/null
git -C /repo worktree add -q $WT HEAD
rsync -a --exclude incremental /repo/target/ $WT/target/ 2>/dev/null
for c in $(git -C /repo rev-list --reverse $BASE..HEAD); do
  git -C $WT checkout -q --detach $c
  r=$(cd $WT && cargo test --offline --lib 2>&1 | grep "^test result" | head -1)
  echo "$(git -C /repo log --oneline -1 $c | cut -c1-90) :: $r"
done
git -C /repo worktree remove --force $WT
