#!/usr/bin/env python3
"""extract_digest.py <repo> <coq/gen>  —  translator for C06.

Regenerates <coq/gen>/DigestLayouts.v from the current source of <repo>:

 * the `hasher.update(..)` sequences of Node::hash, Edge::hash, NodeDeletionEntry::{sign,verify},
   EdgeDeletionEntry::{sign,verify}, Invite::hash_val, AnnounceHeader::hash  ->  one `layout` per
   signed kind (field descriptors of coq/model/Digest.v, in hashing order, typed from the struct
   declarations);
 * what verify() enforces beside the signature (non-empty strings, the JSON-object check, the edge
   size limit);
 * the fields of each signed struct (to check that every field except the signature is hashed);
 * every caller of the raw signing service GraphDatabaseService::sign and what it submits
   (a digest of one of the layouts, or bytes supplied by the peer).

The extraction is purely syntactic and strict: every statement of the digest functions must be
recognised, otherwise the script prints what it does not understand and exits non-zero WITHOUT
writing the output file (the check then reports the tie as broken; the previous table stays on disk,
announced as stale, only so that the harness' cases can still be evaluated and searched).
"""
import os, re, sys


class Refuse(Exception):
    pass


def read(repo, rel):
    p = os.path.join(repo, rel)
    if not os.path.exists(p):
        raise Refuse("source file missing: " + rel)
    src = open(p, encoding="utf-8").read()
    # drop comments (line and block); the digest functions contain no string with '//'
    src = re.sub(r"/\*.*?\*/", "", src, flags=re.S)
    src = re.sub(r"//[^\n]*", "", src)
    return src


def block_at(src, start):
    """src[start] is '{' ; returns the text between the matching braces"""
    assert src[start] == "{"
    depth = 0
    for i in range(start, len(src)):
        if src[i] == "{":
            depth += 1
        elif src[i] == "}":
            depth -= 1
            if depth == 0:
                return src[start + 1:i]
    raise Refuse("unbalanced braces")


def impl_block(src, name, rel):
    m = re.search(r"\bimpl\s+%s\s*\{" % re.escape(name), src)
    if not m:
        raise Refuse("impl %s not found in %s" % (name, rel))
    return block_at(src, m.end() - 1)


def fn_block(impl, fname, where):
    m = re.search(r"\bfn\s+%s\s*\(([^)]*)\)[^{]*\{" % re.escape(fname), impl)
    if not m:
        raise Refuse("fn %s not found in %s" % (fname, where))
    return m.group(1), block_at(impl, m.end() - 1)


def struct_fields(src, name, rel):
    """[(field, type, serde_skip)] of `pub struct name { .. }`"""
    m = re.search(r"\bstruct\s+%s\s*\{" % re.escape(name), src)
    if not m:
        raise Refuse("struct %s not found in %s" % (name, rel))
    body = block_at(src, m.end() - 1)
    out = []
    skip = False
    for part in re.split(r",\s*\n|,\s*$", body.strip()):
        part = part.strip()
        if not part:
            continue
        attrs = re.findall(r"#\[([^\]]*)\]", part)
        part = re.sub(r"#\[[^\]]*\]", "", part).strip()
        mm = re.match(r"(?:pub(?:\([^)]*\))?\s+)?(\w+)\s*:\s*(.+)$", part, flags=re.S)
        if not mm:
            raise Refuse("struct %s: cannot read field declaration %r" % (name, part))
        skip = any("serde(skip" in a for a in attrs)
        out.append((mm.group(1), re.sub(r"\s+", "", mm.group(2)), skip))
    return out


UID_SIZE_RE = re.compile(r"pub const UID_SIZE:\s*usize\s*=\s*(\d+);")


def desc_of_type(ty, fname, uid):
    """field descriptor for a NON-optional value of Rust type ty hashed raw"""
    if ty == "Uid":
        return "Fixed %d" % uid
    m = re.match(r"\[u8;(\d+)\]$", ty)
    if m:
        return "Fixed %s" % m.group(1)
    if ty == "Vec<u8>":
        return "Key" if fname == "verifying_key" else "VarBytes"
    raise Refuse("field %s: type %s hashed raw is not understood" % (fname, ty))


def norm_name(e):
    e = e.strip().lstrip("&*").strip()
    e = re.sub(r"^(self|node|edge)\.", "", e)
    e = e.lstrip("_")
    return {"room": "room_id", "entity": "entity", "application": "application"}.get(e, e)


def parse_digest(body, types, uid, where, param_types=None, nonempty=()):
    """body of a function feeding `hasher`; returns ([(name, descriptor)], residue-free check done)"""
    param_types = param_types or {}
    fields = []
    rest = body

    def type_of(owner_expr):
        # owner_expr like self.id / node.mdate / room / verifying_key
        e = owner_expr.strip().lstrip("&*").strip()
        m = re.match(r"^(self|node|edge)\.(\w+)$", e)
        if m:
            owner, f = m.group(1), m.group(2)
            t = types.get(owner, {}).get(f)
            if t is None:
                raise Refuse("%s: unknown field %s" % (where, e))
            return f, t
        if re.match(r"^\w+$", e):
            if e in param_types:
                return e, param_types[e]
            raise Refuse("%s: unknown variable %s" % (where, e))
        raise Refuse("%s: expression %r not understood" % (where, owner_expr))

    def plain_item(e, raw):
        mm = re.fullmatch(r"&?((?:self|node|edge)\.\w+|\w+)\.to_le_bytes\(\)", e)
        if mm:
            f, t = type_of(mm.group(1))
            if t != "i64":
                raise Refuse("%s: to_le_bytes of %s : %s (only i64 is understood)" % (where, f, t))
            return f, "I64le"
        mm = re.fullmatch(r"((?:self|node|edge)\.\w+|\w+)\.as_bytes\(\)", e)
        if mm:
            f, t = type_of(mm.group(1))
            if t not in ("String", "&String", "&str"):
                raise Refuse("%s: as_bytes of %s : %s" % (where, f, t))
            return f, "VarStr %s" % ("true" if f in nonempty else "false")
        mm = re.fullmatch(r"b\"([ -!#-\[\]-~]*)\"", raw.strip())
        if mm:   # a constant byte string: domain-separation tag
            return "<tag>", "TAG:" + mm.group(1)
        mm = re.fullmatch(r"&?((?:self|node|edge)\.\w+|\w+)", e)
        if mm:
            f, t = type_of(mm.group(1))
            if t in ("&[u8]",):
                return f, "SLICE"   # typed by the verify side
            return f, desc_of_type(t, f, uid)
        raise Refuse("%s: hasher.update(%s) not understood" % (where, raw))

    # walk the statements in order
    pos = 0
    items = []
    token = re.compile(
        r"(?P<opt>if\s+let\s+Some\((?P<ov>\w+)\)\s*=\s*&self\.(?P<of>\w+)\s*\{(?P<ob>[^{}]*)\})"
        r"|(?P<upd>hasher\.update\((?P<ue>[^;]*)\)\s*;)", flags=re.S)
    for m in token.finditer(body):
        items.append(m)
    consumed = []
    pending_len = None
    for m in items:
        consumed.append((m.start(), m.end()))
        if m.group("opt"):
            var, f, inner = m.group("ov"), m.group("of"), m.group("ob")
            t = types["self"].get(f)
            if t is None or not t.startswith("Option<"):
                raise Refuse("%s: `if let Some` over %s which is not an Option field" % (where, f))
            it = t[len("Option<"):-1]
            inner_n = re.sub(r"\s+", " ", inner.strip())
            if re.fullmatch(r"hasher\.update\(%s\);" % var, inner_n):
                d = desc_of_type(it, f, uid)
                fields.append((f, "Opt (%s)" % d))
            elif re.fullmatch(r"let serialized = serde_json::to_string\(%s\)\?; hasher\.update\(serialized\.as_bytes\(\)\);" % var, inner_n):
                if it != "String":
                    raise Refuse("%s: JSON-quoted field %s is not a String" % (where, f))
                fields.append((f, "Opt JsonQ"))
            else:
                raise Refuse("%s: optional block for %s not understood: %r" % (where, f, inner_n))
        else:
            e = re.sub(r"\s+", "", m.group("ue"))
            # a u64 length prefix: hasher.update(&(X.len() as u64).to_le_bytes()) right before hasher.update(X..)
            mm = re.fullmatch(r"&\(((?:self|node|edge)\.\w+|\w+)(?:\.as_bytes\(\))?\.len\(\)asu64\)\.to_le_bytes\(\)", e)
            if mm:
                if pending_len is not None:
                    raise Refuse("%s: two length prefixes in a row" % where)
                pending_len = norm_name(mm.group(1))
                continue
            pl, pending_len = pending_len, None
            if pl is not None:
                # the next item must be the field the length belongs to
                nxt = re.match(r"&?((?:self|node|edge)\.\w+|\w+)", e)
                if not nxt or norm_name(nxt.group(1)) != pl:
                    raise Refuse("%s: length prefix of %s is not followed by that field" % (where, pl))
            name, desc = plain_item(e, m.group("ue"))
            if pl is not None:
                if desc.startswith("TAG:") or desc == "SLICE" or desc == "I64le":
                    raise Refuse("%s: length prefix before %s not understood" % (where, name))
                desc = "LenPref (%s)" % desc
            fields.append((name, desc))
    if pending_len is not None:
        raise Refuse("%s: dangling length prefix of %s" % (where, pending_len))
    # residue: everything that is not a recognised statement must be known boilerplate
    residue = body
    for (a, b) in reversed(consumed):
        residue = residue[:a] + " " + residue[b:]
    return fields, residue


BOILER = [
    r"let mut hasher = blake3::Hasher::new\(\);",
    r"Ok\(hasher\.finalize\(\)\)",
    r"hasher\.finalize\(\)",
    r"let hash = hasher\.finalize\(\);",
    r"\*hasher\.finalize\(\)\.as_bytes\(\)",
    r"hash\.as_bytes\(\)\.to_vec\(\)",
    r"signing_key\.sign\(hash\.as_bytes\(\)\)",
    r"let pub_key = import_verifying_key\(&self\.verifying_key\)\?;",
    r"pub_key\.verify\(hash\.as_bytes\(\), &self\.signature\)\?;",
    r"Ok\(\(\)\)",
]


def check_residue(residue, where):
    r = re.sub(r"\s+", " ", residue).strip()
    # longest patterns first
    for pat in sorted(BOILER, key=len, reverse=True):
        r = re.sub(pat, " ", r)
    r = r.strip()
    if r:
        raise Refuse("%s: statements not understood: %r" % (where, r[:300]))


def coq_str(s):
    return '"' + s.replace('"', '""') + '"'


def hexs(b):
    return "".join("%02x" % c for c in b)


def main():
    if len(sys.argv) != 3:
        print(__doc__)
        return 2
    repo, gen = sys.argv[1], sys.argv[2]
    outp = os.path.join(gen, "DigestLayouts.v")
    try:
        text = build(repo)
    except Refuse as e:
        # the table is NOT regenerated and the run is reported as a broken tie (exit 1). The last
        # generated table is left in place for one purpose only: the harness cases can still be
        # evaluated against it, so that the search can turn the change into a concrete failing input.
        print("extract_digest: REFUSED: %s" % e)
        if os.path.exists(outp):
            print("extract_digest: %s is STALE (last table kept for the search only)" % outp)
        return 1
    os.makedirs(gen, exist_ok=True)
    if not os.path.exists(outp) or open(outp).read() != text:
        open(outp, "w").write(text)
    print("extract_digest: wrote %s" % outp)
    return 0


def layout_of(fields, where):
    """split leading tag, build Coq terms"""
    tag = b""
    descs = []
    names = []
    for i, (n, d) in enumerate(fields):
        if d.startswith("TAG:"):
            if i != 0:
                raise Refuse("%s: a constant tag that is not the first hashed item is not understood" % where)
            tag = d[4:].encode()
            continue
        if d == "SLICE":
            raise Refuse("%s: untyped slice %s" % (where, n))
        names.append(n)
        descs.append(d)
    return tag, names, descs


def build(repo):
    sec = read(repo, "src/security.rs")
    m = UID_SIZE_RE.search(sec)
    if not m:
        raise Refuse("UID_SIZE not found in src/security.rs")
    uid = int(m.group(1))

    node_rs = read(repo, "src/database/node.rs")
    edge_rs = read(repo, "src/database/edge.rs")
    sysent = read(repo, "src/database/system_entities.rs")
    netmod = read(repo, "src/network/mod.rs")
    outb = read(repo, "src/synchronisation/peer_outbound_service.rs")
    authz = read(repo, "src/database/authorisation_service.rs")
    gdb = read(repo, "src/database/graph_database.rs")

    sf = {
        "Node": struct_fields(node_rs, "Node", "node.rs"),
        "Edge": struct_fields(edge_rs, "Edge", "edge.rs"),
        "NodeDeletionEntry": struct_fields(node_rs, "NodeDeletionEntry", "node.rs"),
        "EdgeDeletionEntry": struct_fields(edge_rs, "EdgeDeletionEntry", "edge.rs"),
        "Invite": struct_fields(sysent, "Invite", "system_entities.rs"),
        "AnnounceHeader": struct_fields(netmod, "AnnounceHeader", "network/mod.rs"),
    }
    ty = {k: {f: t for (f, t, _) in v} for k, v in sf.items()}

    out = {}      # kind -> dict(tag, names, descs, nonempty, json_obj, maxlen, sig_field)

    # ---------------- Node
    impl = impl_block(node_rs, "Node", "node.rs")
    _, vbody = fn_block(impl, "verify", "impl Node")
    _, sbody = fn_block(impl, "sign", "impl Node")
    nonempty = set(re.findall(r"if\s+self\.(\w+)\.is_empty\(\)\s*\{\s*return\s+Err", vbody))
    nonempty_s = set(re.findall(r"if\s+self\.(\w+)\.is_empty\(\)\s*\{\s*return\s+Err", sbody))
    if nonempty != nonempty_s:
        raise Refuse("Node::sign and Node::verify check different non-empty fields")
    json_obj = bool(re.search(r"if let Some\(v\) = &self\._json\s*\{\s*let value: Value = serde_json::from_str\(v\)\?;\s*if value\.as_object\(\)\.is_none\(\)\s*\{\s*return Err", vbody))
    if not re.search(r"let hash = self\.hash\(\)\?;\s*let pub_key = import_verifying_key\(&self\.verifying_key\)\?;\s*pub_key\.verify\(hash\.as_bytes\(\), &self\._signature\)\?;", vbody):
        raise Refuse("Node::verify: the verified message is no longer hash().as_bytes() under verifying_key")
    if not re.search(r"let hash = self\.hash\(\)\?;\s*let signature = signing_key\.sign\(hash\.as_bytes\(\)\);\s*self\._signature = signature;", sbody):
        raise Refuse("Node::sign: the signed message is no longer hash().as_bytes()")
    _, hbody = fn_block(impl, "hash", "impl Node")
    fields, residue = parse_digest(hbody, {"self": ty["Node"]}, uid, "Node::hash", nonempty=nonempty)
    check_residue(residue, "Node::hash")
    tag, names, descs = layout_of(fields, "Node::hash")
    out["node"] = dict(tag=tag, names=names, descs=descs, json_obj=json_obj, maxlen=None, sig="_signature", struct="Node")

    # ---------------- Edge
    impl = impl_block(edge_rs, "Edge", "edge.rs")
    _, vbody = fn_block(impl, "verify", "impl Edge")
    _, sbody = fn_block(impl, "sign", "impl Edge")
    nonempty = set(re.findall(r"if\s+self\.(\w+)\.is_empty\(\)\s*\{\s*return\s+Err", vbody))
    nonempty_s = set(re.findall(r"if\s+self\.(\w+)\.is_empty\(\)\s*\{\s*return\s+Err", sbody))
    if nonempty != nonempty_s:
        raise Refuse("Edge::sign and Edge::verify check different non-empty fields")
    maxlen = None
    if re.search(r"let size = self\.len\(\);\s*if size > MAX_EDGE_LENTGH\s*\{\s*return Err", vbody):
        mm = re.search(r"pub const MAX_EDGE_LENTGH:\s*usize\s*=\s*(\d+);", edge_rs)
        if not mm:
            raise Refuse("MAX_EDGE_LENTGH not found")
        maxlen = int(mm.group(1))
        _, lbody = fn_block(impl, "len", "impl Edge")
        summed = re.findall(r"len \+= (?:&self\.(\w+)(?:\.as_bytes\(\))?\.len\(\)|(\d+));", lbody)
        lres = re.sub(r"len \+= (?:&self\.(\w+)(?:\.as_bytes\(\))?\.len\(\)|(\d+));", "", lbody)
        lres = re.sub(r"let mut len = 0;|\blen\b", "", lres).strip()
        if lres:
            raise Refuse("Edge::len not understood: %r" % lres)
        len_fields = [a for (a, b) in summed if a]
        len_consts = [int(b) for (a, b) in summed if b]
    if not re.search(r"let hash = self\.hash\(\);\s*let verifying_key = import_verifying_key\(&self\.verifying_key\)\?;\s*verifying_key\.verify\(hash\.as_bytes\(\), &self\.signature\)\?;", vbody):
        raise Refuse("Edge::verify: the verified message is no longer hash().as_bytes() under verifying_key")
    if not re.search(r"let hash = self\.hash\(\);\s*let signature = signing_key\.sign\(hash\.as_bytes\(\)\);\s*self\.signature = signature;", sbody):
        raise Refuse("Edge::sign: the signed message is no longer hash().as_bytes()")
    # does sign() evaluate the size bound before the signature field is filled in?
    sign_size_first = None
    ms = re.search(r"let size = self\.len\(\);\s*if size > MAX_EDGE_LENTGH", sbody)
    if maxlen is not None:
        if not ms:
            raise Refuse("Edge::sign: size check not understood")
        sign_size_first = ms.start() < sbody.index("self.signature = signature;")
    _, hbody = fn_block(impl, "hash", "impl Edge")
    fields, residue = parse_digest(hbody, {"self": ty["Edge"]}, uid, "Edge::hash", nonempty=nonempty)
    check_residue(residue, "Edge::hash")
    tag, names, descs = layout_of(fields, "Edge::hash")
    if maxlen is not None:
        # len() must be: every hashed field (i64 as the constant 8) + the signature
        hashed_non_i64 = [n for (n, d) in zip(names, descs) if d != "I64le"]
        n_i64 = sum(1 for d in descs if d == "I64le")
        if sorted(len_fields) != sorted(hashed_non_i64 + ["signature"]) or len_consts != [8] * n_i64:
            raise Refuse("Edge::len does not sum exactly the hashed fields and the signature: %r %r" % (len_fields, len_consts))
    out["edge"] = dict(tag=tag, names=names, descs=descs, json_obj=False, maxlen=maxlen, sig="signature", struct="Edge")

    # ---------------- tombstones: sign and verify must hash the same sequence
    for kind, src, sname, owner, rel in (("node_del", node_rs, "NodeDeletionEntry", "node", "node.rs"),
                                         ("edge_del", edge_rs, "EdgeDeletionEntry", "edge", "edge.rs")):
        impl = impl_block(src, sname, rel)
        _, vbody = fn_block(impl, "verify", "impl " + sname)
        params, sbody = fn_block(impl, "sign", "impl " + sname)
        ptypes = {}
        for p in params.split(","):
            p = p.strip()
            if not p:
                continue
            mm = re.match(r"(\w+)\s*:\s*(.+)$", p)
            if not mm:
                raise Refuse("%s::sign: parameter %r" % (sname, p))
            ptypes[mm.group(1)] = re.sub(r"\s+", "", mm.group(2))
        owner_struct = "Node" if owner == "node" else "Edge"
        if ptypes.get(owner) != "&" + owner_struct:
            raise Refuse("%s::sign: parameter %s is not &%s" % (sname, owner, owner_struct))
        vfields, vres = parse_digest(vbody, {"self": ty[sname]}, uid, sname + "::verify")
        check_residue(vres, sname + "::verify")
        sfields, sres = parse_digest(sbody, {owner: ty[owner_struct]}, uid, sname + "::sign", param_types=ptypes)
        check_residue(sres, sname + "::sign")
        if len(vfields) != len(sfields):
            raise Refuse("%s: sign hashes %d items, verify %d" % (sname, len(sfields), len(vfields)))
        for (vn, vd), (sn, sd) in zip(vfields, sfields):
            if norm_name(vn) != norm_name(sn):
                raise Refuse("%s: sign hashes %s where verify hashes %s" % (sname, sn, vn))
            sd_n = re.sub(r"VarStr (true|false)", "VarStr", sd)
            vd_n = re.sub(r"VarStr (true|false)", "VarStr", vd)
            if sd != "SLICE" and sd_n != vd_n:
                raise Refuse("%s: field %s hashed as %s by sign and as %s by verify" % (sname, vn, sd, vd))
        # build() must pass the fields of the entry it stores
        tag, names, descs = layout_of(vfields, sname + "::verify")
        out[kind] = dict(tag=tag, names=names, descs=descs, json_obj=False, maxlen=None, sig="signature", struct=sname)

    # ---------------- Invite::hash_val, AnnounceHeader::hash (digests signed by the raw signing service)
    impl = impl_block(sysent, "Invite", "system_entities.rs")
    params, hbody = fn_block(impl, "hash_val", "impl Invite")
    ptypes = {}
    for p in params.split(","):
        mm = re.match(r"\s*(\w+)\s*:\s*(.+)$", p.strip())
        if mm:
            ptypes[mm.group(1)] = re.sub(r"\s+", "", mm.group(2))
    fields, residue = parse_digest(hbody, {}, uid, "Invite::hash_val", param_types=ptypes)
    residue = re.sub(r"let hash = hasher\.finalize\(\);", " ", residue)
    check_residue(residue, "Invite::hash_val")
    _, hb2 = fn_block(impl, "hash", "impl Invite")
    if re.sub(r"\s+", "", hb2) != "Self::hash_val(self.invite_id,&self.application)":
        raise Refuse("Invite::hash is no longer hash_val(invite_id, application)")
    tag, names, descs = layout_of(fields, "Invite::hash_val")
    out["invite"] = dict(tag=tag, names=names, descs=descs, json_obj=False, maxlen=None, sig="invite_sign", struct="Invite")

    impl = impl_block(netmod, "AnnounceHeader", "network/mod.rs")
    _, hbody = fn_block(impl, "hash", "impl AnnounceHeader")
    fields, residue = parse_digest(hbody, {"self": ty["AnnounceHeader"]}, uid, "AnnounceHeader::hash")
    check_residue(residue, "AnnounceHeader::hash")
    tag, names, descs = layout_of(fields, "AnnounceHeader::hash")
    out["announce"] = dict(tag=tag, names=names, descs=descs, json_obj=False, maxlen=None, sig="signature", struct="AnnounceHeader")

    # ---------------- the raw signing service and its callers
    if not re.search(r"AuthorisationMessage::Sign\(data, reply\)\s*=>\s*\{\s*let verifying = auth\.signing_key\.export_verifying_key\(\);\s*let signature = auth\.signing_key\.sign\(&data\);", authz):
        raise Refuse("AuthorisationMessage::Sign no longer signs the submitted bytes as they are: not understood")
    if not re.search(r"pub async fn sign\(&self, data: Vec<u8>\)[^{]*\{[^}]*AuthorisationMessage::Sign\(data, reply\)", gdb):
        raise Refuse("GraphDatabaseService::sign not understood")
    callers = []
    for rel in sorted(all_rs(repo)):
        s = read(repo, rel)
        s = re.sub(r"#\[cfg\(test\)\]\s*mod tests\s*\{.*\Z", "", s, flags=re.S)
        for mm in re.finditer(r"\b(?:db|database)\s*\.sign\(([^;]*?)\)\s*\.await", s, flags=re.S):
            arg = re.sub(r"\s+", "", mm.group(1))
            if arg == "header.hash().to_vec()":
                callers.append((rel, "SignsDigest 5%N"))
            elif arg == "hash_val" and re.search(r"let hash_val = Self::hash_val\(invite_id, &application\);", s):
                callers.append((rel, "SignsDigest 4%N"))
            elif arg == "challenge" and re.search(r"Query::ProveIdentity\(challenge\)\s*=>\s*\{\s*let res = peer\.db\.sign\(challenge\)\.await;", s):
                callers.append((rel, "SignsPeerBytes"))
            else:
                raise Refuse("%s: caller of the signing service submits %r: not understood" % (rel, arg))
    if not callers:
        raise Refuse("no caller of the raw signing service found (renamed?)")
    # the identity answer must be verified over the raw challenge for the model to apply
    syn = read(repo, "src/synchronisation/mod.rs")
    ident_raw = bool(re.search(r"pub fn verify\(&self, challenge: &\[u8\]\)[^{]*\{\s*let pub_key = security::import_verifying_key\(&self\.peer\.verifying_key\)\?;\s*pub_key\.verify\(challenge, &self\.chall_signature\)\?;", syn))
    if not ident_raw:
        raise Refuse("IdentityAnswer::verify not understood")

    # ---------------- emit
    kinds = ["node", "edge", "node_del", "edge_del", "invite", "announce"]
    L = []
    L.append("(* DigestLayouts.v — GENERATED by tools/extract_digest.py from /repo's current source. Do not edit.")
    L.append("   One layout per signed digest, in hashing order; see coq/model/Digest.v for the descriptors. *)")
    L.append("From DV Require Import Digest.")
    L.append("From Coq Require Import String.")
    L.append("Open Scope string_scope.")
    L.append("")
    for i, k in enumerate(kinds):
        o = out[k]
        L.append("Definition %s_layout : layout :=" % k)
        L.append("  {| l_tag := hx \"%s\";" % hexs(o["tag"]))
        L.append("     l_fields := [%s];" % "; ".join(o["descs"]))
        L.append("     l_json_object := %s;" % ("true" if o["json_obj"] else "false"))
        L.append("     l_maxlen := %s |}." % ("Some %d%%N" % o["maxlen"] if o["maxlen"] is not None else "None"))
        L.append("Definition %s_names : list string := [%s]." % (k, "; ".join(coq_str(n) for n in o["names"])))
        st = [f for (f, t, skip) in sf[o["struct"]] if not skip and f != o["sig"]]
        L.append("Definition %s_struct_fields : list string := [%s]." % (k, "; ".join(coq_str(n) for n in st)))
        L.append("")
    L.append("(* kinds: 0 node, 1 reference (edge), 2 node deletion record, 3 reference deletion record,")
    L.append("   4 invitation, 5 announce header *)")
    L.append("Definition layouts : list layout := [%s]." % "; ".join(k + "_layout" for k in kinds))
    L.append("Definition layout_names : list (list string) := [%s]." % "; ".join(k + "_names" for k in kinds))
    L.append("Definition layout_struct_fields : list (list string) := [%s]." % "; ".join(k + "_struct_fields" for k in kinds))
    L.append("")
    L.append("(* Edge::sign evaluates the size bound while the signature field is still empty (verify() counts the 64 signature bytes) *)")
    L.append("Definition sign_size_excludes_signature : bool := %s." % ("true" if sign_size_first else "false"))
    L.append("")
    L.append("(* callers of GraphDatabaseService::sign (the raw signing service) and what they submit *)")
    L.append("Definition sign_callers : list sign_request_kind := [%s]." % "; ".join(c for (_, c) in callers))
    L.append("(* %s *)" % "; ".join("%s: %s" % c for c in callers))
    L.append("")
    return "\n".join(L)


def all_rs(repo):
    for d, _, fs in os.walk(os.path.join(repo, "src")):
        for f in fs:
            if f.endswith(".rs"):
                yield os.path.relpath(os.path.join(d, f), repo)


if __name__ == "__main__":
    sys.exit(main())
