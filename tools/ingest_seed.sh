#!/bin/bash
# usage: tools/ingest_seed.sh C19 5 6
# coordinator's confirmation of a seeder's two changes (re-runs the seeder's OUT/verify.sh in the seeder's scratch
# worktree /tmp/seed_<P>), then files them as seeded/<P>-<n1> and seeded/<P>-<n2> (patch.diff, demo.diff,
# seeder_README.md, verify.sh, verify.log). meta.json is written by tools/seed_meta.py afterwards.
P=$1; N1=$2; N2=$3
W=/tmp/seed_$P
[ -f $W/OUT/change1.diff ] || { echo "no OUT/change1.diff in $W"; exit 2; }
( cd $W && git checkout -q -- . 2>/dev/null; timeout 5400 bash OUT/verify.sh ) > $W/OUT/verify_coordinator.log 2>&1
echo "verify.sh exit=$?" >> $W/OUT/verify_coordinator.log
for k in 1 2; do
  n=$([ $k = 1 ] && echo $N1 || echo $N2)
  [ -f $W/OUT/change$k.diff ] || continue
  D=/verif/seeded/$P-$n; mkdir -p $D
  cp $W/OUT/change$k.diff $D/patch.diff
  cp $W/OUT/demo$k.diff $D/demo.diff 2>/dev/null
  cp $W/OUT/README.md $D/seeder_README.md 2>/dev/null
  cp $W/OUT/verify.sh $D/verify.sh 2>/dev/null
  cp $W/OUT/verify_coordinator.log $D/verify.log
  echo "(this directory holds change$k / demo$k of the seeder's pair)" >> $D/verify.log
done
tail -20 $W/OUT/verify_coordinator.log
