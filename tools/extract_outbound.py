#!/usr/bin/env python3
"""extract_outbound.py /repo /verif/coq/gen  ->  gen/OutboundTable.v

Regenerates, from /repo's working tree, the request-kind -> guard / data-source table of the serving
side of a connection (C08):

  * every variant of `enum Query` in src/synchronisation/mod.rs (name, does it start with a room id)
  * for each arm of `match msg.query` in InboundQueryService::process_inbound
    (src/synchronisation/peer_outbound_service.rs): the guard expression kind, the variable it tests,
    the `peer.db.<fn>` data source and its first argument, whether a `peer.send(.., true, ..)` is
    reachable outside the guarded block, whether the other branch refuses with
    Error::Authorisation, whether the arm inserts into `allowed_room` (and under which condition)
  * every site in src/ that inserts into `allowed_room` / calls `add_allowed_room`, and the guard of
    the one call in process_local_event (src/synchronisation/peer_inbound_service.rs)
  * for each data source: whether the SQL / row loop of the function it reaches filters by the room

Deliberately syntactic.  If the code is no longer recognised the script REFUSES (exit 1): ./chk then
reports the tie as broken.  The table generated from the last recognised source is left in place so
that the models still compile and ./chk can search for a failing input on the implementation's behaviour.
"""
import re, sys, os


class Refuse(Exception):
    pass


def read(p):
    with open(p) as f:
        return f.read()


def strip_comments(s):
    s = re.sub(r"//[^\n]*", "", s)
    return s


def block_at(s, open_idx):
    """s[open_idx] == '{' ; returns index of the matching '}'"""
    assert s[open_idx] == "{", s[open_idx:open_idx + 20]
    depth = 0
    i = open_idx
    in_str = False
    while i < len(s):
        c = s[i]
        if in_str:
            if c == "\\":
                i += 2
                continue
            if c == '"':
                in_str = False
        else:
            if c == '"':
                in_str = True
            elif c == "{":
                depth += 1
            elif c == "}":
                depth -= 1
                if depth == 0:
                    return i
        i += 1
    raise Refuse("unbalanced braces")


def paren_args(s, open_idx):
    """s[open_idx] == '(' ; returns (list of top-level comma separated args, index after ')')"""
    assert s[open_idx] == "("
    depth = 0
    i = open_idx
    args, cur = [], []
    in_str = False
    while i < len(s):
        c = s[i]
        if in_str:
            cur.append(c)
            if c == "\\":
                cur.append(s[i + 1]); i += 2; continue
            if c == '"':
                in_str = False
        else:
            if c == '"':
                in_str = True; cur.append(c)
            elif c in "([{":
                depth += 1
                if depth > 1: cur.append(c)
            elif c in ")]}":
                depth -= 1
                if depth == 0:
                    a = "".join(cur).strip()
                    if a: args.append(a)          # a trailing comma adds no argument
                    return args, i + 1
                cur.append(c)
            elif c == "," and depth == 1:
                args.append("".join(cur).strip()); cur = []
            else:
                cur.append(c)
        i += 1
    raise Refuse("unbalanced parentheses")


def fn_body(src, signature_regex, what):
    m = re.search(signature_regex, src)
    if not m:
        raise Refuse("function not found: " + what)
    # the signature regex ends with the '(' of the parameter list; the body is the first '{' after its ')'
    po = m.end() - 1
    if src[po] != "(": raise Refuse("signature pattern of %s does not end with '('" % what)
    _, after = paren_args(src, po)
    o = src.index("{", after)
    c = block_at(src, o)
    return src[o + 1:c]


SOURCES = {  # peer.db.<fn> -> (source constant, where the rows come from: file, fn regex, patterns that must ALL occur in that fn)
    "get_room_definition": ("SRoomDefinition", "database/daily_log.rs", r"impl RoomDefinitionLog \{\s*pub fn get\(", [r"WHERE rcl\.room_id = \?"]),
    "get_room_node": ("SRoomNode", "database/room_node.rs", r"impl RoomNode \{(?:.|\n)*?pub fn read\(", [r"Node::get_with_entity\(id, ROOM_ENT_SHORT, conn\)", r"Edge::get_edges\(id, ROOM_ADMIN_FIELD_SHORT, conn\)", r"Edge::get_edges\(id, ROOM_AUTHORISATION_FIELD_SHORT, conn\)"]),
    "get_room_log": ("SRoomLog", "database/daily_log.rs", r"pub fn get_room_log\(", [r"FROM _daily_log\s+WHERE room_id = \?"]),
    "get_room_log_at": ("SRoomLogAt", "database/daily_log.rs", r"pub fn get_room_log_at\(", [r"FROM _daily_log\s+WHERE\s+room_id = \? AND"]),
    "get_room_edge_deletion_log": ("SEdgeDeletionLog", "database/edge.rs", r"impl EdgeDeletionEntry \{(?:.|\n)*?pub fn get_entries\(", [r"FROM _edge_deletion_log\s+WHERE\s+room_id = \? AND"]),
    "get_room_node_deletion_log": ("SNodeDeletionLog", "database/node.rs", r"impl NodeDeletionEntry \{(?:.|\n)*?pub fn get_entries\(", [r"FROM _node_deletion_log\s+WHERE\s+room_id = \? AND"]),
    "get_room_daily_nodes": ("SRoomDailyNodes", "database/node.rs", r"pub fn get_daily_nodes_for_room\(", [r"FROM _node\s+WHERE\s+room_id = \? AND"]),
    "get_nodes": ("SNodes", "database/node.rs", r"pub fn filtered_by_room\(", [r"Some\(rid\) => \{\s*if !rid\.eq\(room_id\) \{\s*continue;", r"None => \{\s*continue;"]),
    "get_edges": ("SEdges", "database/edge.rs", r"pub fn filtered_by_room\(", [r"FROM _edge JOIN _node ON\s+_edge\.src = _node\.id", r"_node\.room_id = \?", r"query_map\(\(src, cdate, room_id\)"]),
    "peers_for_room": ("SPeersForRoom", "database/graph_database.rs", r"pub async fn peers_for_room\(", [r"AuthorisationMessage::UserForRoom\(room_id, u_reply\)", r"Peer::get_peers\(keys,"]),
    "get_rooms_for_peer": ("SRoomsForPeer", "database/graph_database.rs", r"pub async fn get_rooms_for_peer\(", [r"AuthorisationMessage::RoomsForPeer\(\s*verifying_key,\s*now\(\),\s*reply,?\s*\)"]),
}
# how graph_database.rs hands the room id down to the function checked above
WRAPPERS = {
    "get_room_definition": r"RoomDefinitionLog::get\(&room_id, conn\)",
    "get_room_node": r"RoomNode::read\(conn, &room_id\)",
    "get_room_log": r"DailyLog::get_room_log\(&room_id,",
    "get_room_log_at": r"DailyLog::get_room_log_at\(&room_id, date, conn\)",
    "get_room_edge_deletion_log": r"EdgeDeletionEntry::get_entries\(\s*&room_id,",
    "get_room_node_deletion_log": r"NodeDeletionEntry::get_entries\(\s*&room_id,",
    "get_room_daily_nodes": r"Node::get_daily_nodes_for_room\(\s*&room_id,",
    "get_nodes": r"Node::filtered_by_room\(&room_id, node_ids,",
    "get_edges": r"Edge::filtered_by_room\(&room_id, node_ids,",
}


def main():
    repo, out = sys.argv[1], sys.argv[2]
    src = os.path.join(repo, "src")
    mod = strip_comments(read(os.path.join(src, "synchronisation/mod.rs")))
    outb = strip_comments(read(os.path.join(src, "synchronisation/peer_outbound_service.rs")))
    inb = strip_comments(read(os.path.join(src, "synchronisation/peer_inbound_service.rs")))

    # ---- enum Query
    m = re.search(r"pub enum Query\s*\{", mod)
    if not m: raise Refuse("enum Query not found")
    o = mod.index("{", m.start()); c = block_at(mod, o)
    variants = []
    for vm in re.finditer(r"(\w+)\s*(\(([^)]*)\))?\s*,", mod[o + 1:c] + ","):
        name, args = vm.group(1), (vm.group(3) or "")
        # split on top-level commas
        depth, cur, parts = 0, "", []
        for ch in args:
            if ch in "(<[": depth += 1
            if ch in ")>]": depth -= 1
            if ch == "," and depth == 0: parts.append(cur.strip()); cur = ""
            else: cur += ch
        if cur.strip(): parts.append(cur.strip())
        variants.append((name, parts))
    # re-parse robustly: variant list by brace-level scan (nested parens in Vec<(Uid, i64)>)
    body = mod[o + 1:c]
    variants = []
    i = 0
    while i < len(body):
        mm = re.compile(r"\s*(\w+)").match(body, i)
        if not mm: break
        name = mm.group(1); i = mm.end()
        parts = []
        if i < len(body) and body[i] == "(":
            parts, i = paren_args(body, i)
        variants.append((name, [p for p in parts if p]))
        mm = re.compile(r"\s*,").match(body, i)
        if not mm: break
        i = mm.end()
    if len(variants) < 3: raise Refuse("enum Query: variants not recognised")

    # ---- process_inbound arms
    body = fn_body(outb, r"pub async fn process_inbound\(", "process_inbound")
    mm = re.search(r"match msg\.query\s*\{", body)
    if not mm: raise Refuse("match msg.query not found")
    mo = body.index("{", mm.start()); mc = block_at(body, mo)
    if body[mc + 1:].strip() != "": raise Refuse("process_inbound: code after the match on msg.query")
    if body[:mm.start()].strip() != "": raise Refuse("process_inbound: code before the match on msg.query")
    mbody = body[mo + 1:mc]
    arms = {}
    i = 0
    while True:
        am = re.compile(r"\s*Query::(\w+)\s*(\()?").match(mbody, i)
        if not am:
            if mbody[i:].strip() != "": raise Refuse("unrecognised arm: " + mbody[i:i + 60].strip())
            break
        name = am.group(1); j = am.end()
        binders = []
        if am.group(2):
            binders, j = paren_args(mbody, am.end() - 1)
        am2 = re.compile(r"\s*=>\s*\{").match(mbody, j)
        if not am2: raise Refuse("arm %s: '=> {' expected" % name)
        bo = am2.end() - 1; bc = block_at(mbody, bo)
        if name in arms: raise Refuse("duplicate arm " + name)
        arms[name] = (binders, mbody[bo + 1:bc])
        i = bc + 1
    vnames = [v[0] for v in variants]
    if sorted(arms) != sorted(vnames):
        raise Refuse("arms %s do not match the variants %s" % (sorted(arms), sorted(vnames)))

    # helpers of RemotePeerHandle whose only effect is an unsuccessful Error::Authorisation answer (a refusal moved
    # into a method, e.g. `peer.refuse(msg.id, "Query::Nodes")`): a call to one of them counts as that send
    refusing_helpers = set()
    for hm in re.finditer(r"async fn (\w+)\s*\(\s*&self\s*,\s*(\w+)\s*:\s*u64", outb):
        hname, idvar = hm.group(1), hm.group(2)
        if hname in ("send", "process_inbound"): continue
        try:
            hb = fn_body(outb, r"async fn %s\s*\(" % hname, hname)
        except Refuse:
            continue
        hs = [paren_args(hb, m_.end() - 1)[0] for m_ in re.finditer(r"self\s*\.send\s*\(", hb)]
        rest = re.sub(r"\s+", "", re.sub(r"self\s*\.send\s*\((?:.|\n)*?\)\s*\.await\??;?", "", hb))
        if len(hs) == 1 and len(hs[0]) == 4 and hs[0][0] == idvar and hs[0][1] == "false" and hs[0][3].startswith("Error::Authorisation(") and rest == "":
            refusing_helpers.add(hname)

    def analyse(name, binders, text):
        # top-level `if`
        depth = 0; k = 0; top_if = None
        while k < len(text):
            ch = text[k]
            if ch == "{": depth += 1
            elif ch == "}": depth -= 1
            elif depth == 0 and re.compile(r"\bif\b").match(text, k) and (k == 0 or not (text[k - 1].isalnum() or text[k - 1] == "_")):
                top_if = k; break
            k += 1
        guard, gvar = "GNone", None
        then_rng, else_rng = None, None
        if top_if is not None:
            bo = text.index("{", top_if); cond = " ".join(text[top_if + 2:bo].split())
            bc = block_at(text, bo)
            then_rng = (bo, bc)
            em = re.compile(r"\s*else\s*\{").match(text, bc + 1)
            if em:
                eo = em.end() - 1; else_rng = (eo, block_at(text, eo))
            g = re.fullmatch(r"peer\.allowed_room\.contains\(&(\w+)\)", cond)
            if g:
                guard, gvar = "GAllowedRoom", g.group(1)
            elif cond == "!key.is_empty() && conn_ready.load(Ordering::Relaxed)":
                guard = "GKeyReady"
            elif cond == "!key.is_empty()":
                inner = text[bo + 1:bc]
                im = re.search(r"\bif\s+key\.eq\(&peer\.verifying_key\)\s*\{", inner)
                if not im: raise Refuse("arm %s: '!key.is_empty()' without the self-key test" % name)
                io = bo + 1 + inner.index("{", im.start()); ic = block_at(text, io)
                guard = "GKeySelf"; then_rng = (io, ic)
            else:
                raise Refuse("arm %s: unrecognised guard '%s'" % (name, cond))
            if guard in ("GKeyReady", "GKeySelf") and "let key = verifying_key.lock().await;" not in text[:top_if]:
                raise Refuse("arm %s: `key` is not the connection's verified key" % name)
        # sends
        sends = []
        for sm in re.finditer(r"peer\s*\.send\s*\(", text):
            args, _ = paren_args(text, sm.end() - 1)
            if len(args) != 4 or args[0] != "msg.id": raise Refuse("arm %s: unrecognised send(%s)" % (name, args))
            if args[1] not in ("true", "false"): raise Refuse("arm %s: success flag is not a literal" % name)
            sends.append((sm.start(), args[1] == "true", args[2], args[3]))
        if not sends: raise Refuse("arm %s: no send" % name)
        inside = lambda pos, rng: rng is not None and rng[0] < pos < rng[1]
        if guard == "GNone":
            unguarded = False
        else:
            unguarded = any(ok and not inside(pos, then_rng) for (pos, ok, _, _) in sends)
        refuses = else_rng is not None and any((not ok) and inside(pos, else_rng) and payload.startswith("Error::Authorisation(") for (pos, ok, _, payload) in sends)
        for hname in refusing_helpers:
            for hm_ in re.finditer(r"peer\s*\.%s\s*\(" % hname, text):
                hargs, _ = paren_args(text, hm_.end() - 1)
                if hargs and hargs[0] == "msg.id" and else_rng is not None and inside(hm_.start(), else_rng):
                    refuses = True
        # data sources
        calls = []
        for cm in re.finditer(r"peer\s*\.db\s*\.(\w+)\s*\(", text):
            args, _ = paren_args(text, cm.end() - 1)
            calls.append((cm.start(), cm.group(1), args))
        fns = [c[1] for c in calls]
        src_room_arg_ok = True
        if name == "ProveIdentity":
            if sorted(fns) != ["get_peer_node", "sign"]: raise Refuse("ProveIdentity: unexpected data sources %s" % fns)
            source = "SSign"
        elif name == "HardwareFingerprint":
            if fns: raise Refuse("HardwareFingerprint: unexpected data sources %s" % fns)
            if not any(ok and payload == "fingerprint.clone()" for (_, ok, _, payload) in sends): raise Refuse("HardwareFingerprint: payload not recognised")
            source = "SFingerprint"
        else:
            if len(calls) != 1 or calls[0][1] not in SOURCES: raise Refuse("arm %s: unexpected data sources %s" % (name, fns))
            pos, fn, args = calls[0]
            source = SOURCES[fn][0]
            if guard != "GNone" and not inside(pos, then_rng): unguarded = True   # data fetched outside the guard
            if guard == "GAllowedRoom":
                src_room_arg_ok = bool(args) and args[0] == gvar and gvar == (binders[0] if binders else None)
            if source == "SRoomsForPeer":
                src_room_arg_ok = args == ["key.clone()"]
        # inserts into allowed_room
        ins = [m_.start() for m_ in re.finditer(r"peer\.allowed_room\.insert\(", text)]
        inserts = "InsNone"
        if ins:
            if name != "RoomList" or len(ins) != 1: raise Refuse("arm %s inserts into allowed_room" % name)
            if not re.search(r"let init_rooms = peer\.allowed_room\.is_empty\(\);", text): raise Refuse("RoomList: init_rooms not recognised")
            if not re.search(r"if init_rooms \{\s*for room in &room_list \{\s*peer\.allowed_room\.insert\(\*room\);\s*\}\s*\}", text):
                raise Refuse("RoomList: insertion loop not recognised")
            if not inside(ins[0], then_rng): raise Refuse("RoomList: insertion outside the key/ready guard")
            inserts = "InsRoomListWhenEmpty"
        return dict(guard=guard, source=source, arg_ok=src_room_arg_ok, unguarded=unguarded, refuses=refuses, inserts=inserts)

    table = {}
    for (name, parts) in variants:
        binders, text = arms[name]
        table[name] = analyse(name, binders, text)
        table[name]["has_room"] = bool(parts) and parts[0] == "Uid"

    # ---- data sources really filter by room
    gdb = strip_comments(read(os.path.join(src, "database/graph_database.rs")))
    filtered = {}
    for fn, (const, rel, sig, pats) in SOURCES.items():
        text = strip_comments(read(os.path.join(src, rel)))
        try:
            b = fn_body(text, sig, fn)
            ok = all(re.search(p, b) for p in pats)
        except Refuse:
            ok = False
        if fn in WRAPPERS:
            try:
                wb = fn_body(gdb, r"pub async fn %s\(" % fn, fn)
                ok = ok and bool(re.search(WRAPPERS[fn], wb))
            except Refuse:
                ok = False
        filtered[const] = ok
    filtered["SSign"] = True; filtered["SFingerprint"] = True

    # ---- who may insert into allowed_room
    all_src = {}
    for root, _, files in os.walk(src):
        for f in files:
            if f.endswith(".rs"): all_src[os.path.relpath(os.path.join(root, f), src)] = strip_comments(read(os.path.join(root, f)))
    insert_sites = [(p, m_.start()) for p, t in all_src.items() for m_ in re.finditer(r"allowed_room\s*\.\s*(insert|extend|remove|clear|retain|drain)\s*\(", t)]
    # expected: RoomList arm + RemotePeerHandle::add_allowed_room, both in peer_outbound_service.rs
    other_mutations = [s for s in insert_sites if s[0] != "synchronisation/peer_outbound_service.rs"]
    n_outb = len([s for s in insert_sites if s[0] == "synchronisation/peer_outbound_service.rs"])
    handle_add = re.search(r"fn add_allowed_room\(&mut self, room: Uid\) \{\s*self\.allowed_room\.insert\(room\);\s*\}", outb) is not None
    svc_add = re.search(r"pub fn add_allowed_room\(&self, room: Uid\) \{\s*let _ = self\.room_sender\.send\(room\);\s*\}", outb) is not None
    loop_add = re.search(r"Some\(uid\) => peer\.add_allowed_room\(uid\),", outb) is not None
    call_sites = [(p, m_.start()) for p, t in all_src.items() for m_ in re.finditer(r"\.add_allowed_room\(", t)]
    ext_calls = [c for c in call_sites if c[0] != "synchronisation/peer_outbound_service.rs"]
    # the single external call: process_local_event, under room.has_user(&key) with key = the connection's remote key
    ple = fn_body(inb, r"async fn process_local_event\(", "process_local_event")
    ev_ok = re.search(r"LocalEvent::RoomDefinitionChanged\(room\) => \{\s*let key = remote_key\.lock\(\)\.await;\s*if room\.has_user\(&key\) \{\s*inbound_query_service\.add_allowed_room\(room\.id\);", ple) is not None
    sites_ok = (not other_mutations) and n_outb == 2 and handle_add and svc_add and loop_add and len(ext_calls) == 1 and ext_calls[0][0] == "synchronisation/peer_inbound_service.rs" and ple.count(".add_allowed_room(") == 1
    no_shrink = not any(re.search(r"allowed_room\s*\.\s*(remove|clear|retain|drain)\s*\(", t) for t in all_src.values())

    # ---- emit
    qk = lambda n: "Q" + n
    L = []
    L.append("(* OutboundTable.v — GENERATED by tools/extract_outbound.py from /repo/src/synchronisation/{mod,peer_outbound_service,peer_inbound_service}.rs")
    L.append("   and the data-source functions of /repo/src/database.  Do not edit: regenerated on every ./chk run. *)")
    L.append("From Coq Require Import List Bool.\nImport ListNotations.\n")
    L.append("Inductive qkind := " + " | ".join(qk(v[0]) for v in variants) + ".")
    L.append("Inductive guard := GNone | GKeySelf | GKeyReady | GAllowedRoom.")
    consts = ["SSign", "SFingerprint"] + [v[0] for v in SOURCES.values()]
    L.append("Inductive source := " + " | ".join(consts) + ".")
    L.append("Inductive inserts := InsNone | InsRoomListWhenEmpty.")
    L.append("Record arm := { a_guard : guard; a_source : source; a_source_arg_is_guarded_room : bool; a_unguarded_success : bool;")
    L.append("                a_refuses_otherwise : bool; a_inserts : inserts; a_first_arg_is_room : bool }.")
    L.append("Definition all_kinds : list qkind := [" + "; ".join(qk(v[0]) for v in variants) + "].")
    L.append("Definition arm_of (k : qkind) : arm :=\n  match k with")
    b = lambda x: "true" if x else "false"
    for (name, _) in variants:
        t = table[name]
        L.append("  | %s => {| a_guard := %s; a_source := %s; a_source_arg_is_guarded_room := %s; a_unguarded_success := %s;" % (qk(name), t["guard"], t["source"], b(t["arg_ok"]), b(t["unguarded"])))
        L.append("             a_refuses_otherwise := %s; a_inserts := %s; a_first_arg_is_room := %s |}" % (b(t["refuses"]), t["inserts"], b(t["has_room"])))
    L.append("  end.")
    L.append("Definition source_room_filtered (s : source) : bool :=\n  match s with")
    for cst in consts:
        L.append("  | %s => %s" % (cst, b(filtered[cst])))
    L.append("  end.")
    L.append("(* allowed_room is written only by the RoomList arm and by RemotePeerHandle::add_allowed_room, which is reached only")
    L.append("   from process_local_event under `room.has_user(&key)` (key = the connection's remote key) *)")
    L.append("Definition allowed_write_sites_as_expected : bool := %s." % b(sites_ok))
    L.append("Definition event_insert_guarded_by_has_user : bool := %s." % b(ev_ok))
    L.append("Definition allowed_never_shrinks : bool := %s." % b(no_shrink))
    os.makedirs(out, exist_ok=True)
    text = "\n".join(L) + "\n"
    target = os.path.join(out, "OutboundTable.v")
    # an unchanged table keeps its timestamp (and the compiled proofs that depend on it)
    if not (os.path.exists(target) and read(target) == text):
        with open(target, "w") as f:
            f.write(text)
    print("OutboundTable.v: %d request kinds" % len(variants))


if __name__ == "__main__":
    try:
        main()
    except Refuse as e:
        # exit 1: ./chk reports the tie as broken.  The previously generated file is left in place so that the
        # models still compile and ./chk can go on searching for a failing input on the implementation's behaviour.
        print("extract_outbound: REFUSED: %s (gen/OutboundTable.v left as generated from the last recognised source)" % e)
        sys.exit(1)
