"""per-property configuration of ./chk"""
COMMON_TRUSTED = [
    "Coq 8.16.1 kernel incl. vm_compute (model evaluation, closed witnesses); native_compute not used",
    "no axioms declared by the development; Print Assumptions output audited on every run",
    "the correspondence harness (generators, canonicalisation to integer lists, comparison in ./chk)",
    "rustc/cargo, SQLite/SQLCipher, serde/bincode, ed25519-dalek, blake3, tokio: not modelled",
]
HOOK_COMMITS = ["ebc69a8", "3bfbf5e", "b9adf20"]
NOT_CLAIMED = {}
P = {
 "C01": {
    "bin": "c01", "run_module": "Run_C01", "eval_fn": "eval_C01", "run_fn": "run_C01",
    "targets": [],
    "level_text": "Coq theorems, unbounded in the room history and the operation tree: (1) the Room built by room.rs' add_* functions from any entry sequence decides exactly what the accepted history grants (refinement to a date-based spec), (2) an accepted mutation / deletion only touches rows for which that spec grants the needed right in the room entered and the room left, never authorisation rows, whole request or nothing. Tied to the code by 1200 (quick) / 12000 (thorough) differential cases per run: decision matrices of real Room values, real validate_entity_mutation and validate_deletion verdicts, each compared with the model and judged by the spec oracle evaluated in Coq.",
    "level_note": "Model (Rights.v, Authz.v) is hand-written and tied by differential runs, not extracted; keys/entities/ids are abstract indices; parsing of request text into InsertEntity/DeletionQuery and the SQL writes are not modelled (room-definition mutations: see C07/C10/C12). No axioms.",
    "technique": "Coq refinement proof (room decisions = date-based grant spec) + invariant over the mutation tree; differential correspondence vs room.rs / authorisation_service.rs",
    "trusted_base": ["hand-written model Rights.v/Authz.v of room.rs and authorisation_service.rs validate_*; tied by differential runs (decision matrices, validate_entity_mutation, validate_deletion)"],
    "assumptions": ["rights are evaluated on abstract keys/entities/uids (indices); request parsing into InsertEntity/DeletionQuery is exercised end-to-end only in the thorough tier"],
    "rule": "random room histories (sorted and unsorted dates, ties, refused entries), decision probes at entry dates +-1ms; InsertEntity trees (depth<=2) and DeletionQuery values over 2-3 rooms; distinct = different (kind, observation, class)",
 },
}
