"""per-property configuration of ./chk: one JSON file per claimed property in tools/props.d/"""
import json, os, glob
HERE = os.path.dirname(os.path.abspath(__file__))
COMMON_TRUSTED = [
    "Coq 8.16.1 kernel incl. vm_compute (model evaluation, closed witnesses); native_compute not used",
    "no axioms declared by the development; Print Assumptions output audited on every run",
    "the correspondence harness (generators, canonicalisation to integer lists, comparison in ./chk)",
    "rustc/cargo, SQLite/SQLCipher, serde/bincode, ed25519-dalek, blake3, tokio: not modelled",
]
HOOK_COMMITS = json.load(open(os.path.join(HERE, "hook_commits.json")))
NOT_CLAIMED = json.load(open(os.path.join(HERE, "not_claimed.json")))
P = {}
for f in sorted(glob.glob(os.path.join(HERE, "props.d", "C*.json"))):
    P[os.path.basename(f)[:-5]] = json.load(open(f))
