#!/usr/bin/env python3
"""prints the prompt for a seeding sub-agent: tools/seeder_prompt.py C06 "<extra context about known weaknesses>" """
import sys
pid, extra = sys.argv[1], (sys.argv[2] if len(sys.argv) > 2 else "")
print(f"""You are testing how robust a semantic property of a Rust library is against subtle regressions. You work ONLY inside the git worktree /tmp/seed_{pid} (a checkout of the library discretlib/discret: a local-first P2P database library — GraphQL-like query language compiled to SQLite, room-based signed authorisation, daily-log peer synchronisation). Do not read or write anything under /verif or /repo. There is no network; `cargo build --offline` / `cargo test --offline` work inside the worktree (a pre-built `target/` directory is already there, so incremental builds take ~1–3 minutes; the full unit-test suite is `cargo test --offline --lib`, 158 tests, all passing now; the integration tests under tests/ need a network and fail regardless — ignore them). The crate has a cargo feature `verif` that re-exports crate-internal modules under `discret::verif_hooks::…` (see src/verif_hooks.rs) — integration tests may use it with `--features verif`. The machine is shared and busy: builds can be slow, be patient and avoid needless rebuilds.

The property (JSON, including anchors into the code) is in /tmp/seed_{pid}_property.json. Read it, then read the code it is anchored in.
{extra}
Your task: produce TWO different, independent changes to the library's source (each as a separate patch against the current HEAD of the worktree) that each BREAK this property while
  (a) still compiling, and
  (b) still passing the whole existing unit-test suite (`cargo test --offline --lib`), and
  (c) looking like a plausible refactoring / optimisation / bug-fix gone wrong that a reviewer could miss — NOT something ordinary use would expose at once. Prefer changes that need something specific to manifest: a particular interleaving, a crash or fault at a particular point, a multi-step sequence of operations, an unusual input, or two cooperating sites that each look fine alone.
For each change also write a **demonstration**: a new Rust test (a new file under the worktree's `tests/` using `--features verif`, or a `#[cfg(test)]` module in a new source file — unit tests inside `src/` can use crate-internal items) that FAILS with the change applied and PASSES without it, exercising the library the way the property describes, not by asserting on private details of your change.

Deliverables, written to /tmp/seed_{pid}/OUT/:
  change1.diff, change2.diff   — `git diff` of ONLY the library change, each applying cleanly to a clean HEAD with `git apply`;
  demo1.diff, demo2.diff       — the demonstration test as a patch (new files only), applying to a clean HEAD;
  verify.sh                    — a script that, from a clean tree, re-checks every claim (suite passes with each change; each demo passes on HEAD and fails with its change) and prints one line per claim;
  README.md                    — for each change: what it changes, why the property is violated, what is needed for it to manifest, the exact commands you ran and their outcomes.
Before finishing, run verify.sh and leave the worktree clean (no uncommitted changes outside OUT/). Do not commit anything.""")
