#!/usr/bin/env python3
"""(re)writes seeded/<id>/meta.json from the descriptions below + the latest work/seedtest_<id>.log + verify.log"""
import json, os, re, glob
ROOT = os.path.dirname(os.path.dirname(os.path.abspath(__file__)))
D = {
 "C01-1": ("C01", "create_node_to_mutate writes the explicit room_id into old_node before cloning it, so validate_entity_mutation never sees a room change: the right in the room a row leaves is not checked", "an update carrying an explicit room_id different from the row's room plus another field, by a caller whose rights differ between the two rooms"),
 "C01-2": ("C01", "the up-front admin gate of validate_room_mutation becomes is_admin || is_user_admin and the final admin check runs on the room after the new admin entry was added: a group's user admin can make itself room admin", "caller is an enabled user admin but not a room admin, submitting a sys.Room mutation that adds an admin / right / user-admin entry"),
 "C06-1": ("C06", "the node digest covers the parsed _json re-serialised instead of the stored text: every _json text parsing to the same value (whitespace, escapes, key order, DUPLICATE keys) shares one signature", "non-canonical JSON text supplied by a peer"),
 "C06-2": ("C06", "PeerNodes::write partially updates a known sys.Peer row (mdate, _json, _signature) from a newer received row without touching verifying_key: a stored row that verifies for nobody is served", "a newer sys.Peer row carrying the id of a stored one, signed by another key"),
 "C15-1": ("C15", "update_data_model assigns self.data_model before writer.write(..).await?: a version refused by the storage step is already the running model", "a run-time update that DataModel::update accepts but the writer refuses (index names differing only by case)"),
 "C15-2": ("C15", "new fields of an update ordered by the TEXT of their parsed position: ids swapped when one update adds fields straddling 99/100", "an entity with >= 67 fields and one update adding two or more fields across the 99/100 boundary"),
 "C16-1": ("C16", "fill_not_nullable no longer skips updates and the 'row already has a value' guard looks the field up by name while stored keys are short names: a partial update resets the other default-valued fields", "entity with default fields holding non-default values, then an update assigning other fields only (strictly sequential)"),
 "C16-2": ("C16", "edges of the source row loaded once and the 'already referenced' set of the array-add path built without the label filter: adding to an array field a target already referenced through another field is silently dropped", "entity with two reference fields sharing a target"),
 "C02-1": ("C02", "on a room change, the author's right in the room the row LEAVES is evaluated at the date of the stored version (old_mdate) instead of the incoming row's date: an author whose rights in room A were revoked can still move rows out of A", "row stored in A at t1, author's right in A revoked at t2, version dated t3 > t2 with another room id arrives"),
 "C02-2": ("C02", "add_edges memoises the source-row lookup of consecutive edges by src only (the query also depends on src_entity): an edge naming the wrong source entity passes the room filter when it directly follows an edge of the same source whose lookup succeeded", "batch [honest edge, forged edge with same src, other src_entity]"),
 "C03-1": ("C03", "a received reference-deletion record deletes the reference by primary key (src,label,dest) instead of (src,src_entity,label,dest,cdate): a replayed old record deletes a reference that was set again later; members keep different references for ever", "set a reference, remove it, set it again, synchronise, then exchange that day once more"),
 "C03-2": ("C03", "Node::filter_existing drops an offered version that is not newer than the DELETION DATE of a stored record instead of the version the record names: a concurrent newer version is never requested by the peer that deleted the old copy", "A updates a row at 02:00, B deletes its old copy at 03:00 without having seen the update"),
 "C04-1": ("C04", "string literals go through a helper that strips every trailing double quote before decoding: a value ending in a quote (written \\\"\") is decoded with a dangling backslash", "a literal whose decoded value ends with a double quote"),
 "C04-2": ("C04", "the CASE form of a filter on a field with a default is replaced by `col op v OR (col is null AND d op v)` spliced unparenthesised after `_entity=.. AND`: the OR escapes the entity restriction and earlier filters", "filter value equal to the field's default and rows of other entities (or older rows) lacking that key"),
 "C05-1": ("C05", "get_paging rebuilds the equality prefix of each disjunct with `prefix = format!(..)` instead of appending: with three or more order keys the last disjunct loses its first equalities; paging revisits rows", "order_by on three or more keys with before/after and rows sharing a middle key with the cursor"),
 "C05-2": ("C05", "the EXISTS sub-query of a non-nullable nested array ends in LIMIT 1 instead of the nested entity's LIMIT first OFFSET skip: a parent with between 1 and `skip` children is returned with an empty array", "non-nullable nested array queried with a non-zero skip"),
 "C07-1": ("C07", "entitlement of an entry's author is evaluated at the entry's cdate instead of its mdate (the date it takes effect); both are chosen by the signer: a former admin signs an entry with cdate inside its past validity and mdate = now", "a hand-made entry with cdate != mdate by a disabled admin / user admin"),
 "C07-2": ("C07", "'new entry' detection uses one set of stored ids per definition / per group instead of per list: a row carrying the id of a row stored in ANOTHER list is neither checked as new nor compared as old", "id collision across lists, relayed together with a legitimately new entry"),
 "C08-1": ("C08", "Edge::filtered_by_room builds `_node.room_id = ? AND (src..) OR (src..) ...` without parenthesising the disjunction: the room filter binds only to the first source of each group of 100", "Edges request naming several sources, some of rooms the peer does not belong to"),
 "C08-2": ("C08", "the ten per-arm allowed_room guards become one check driven by a new Query::room_id() whose match omits NodeDeletionLog: that request kind is served for any room, also before the key proof", "NodeDeletionLog request for a foreign room / on an unauthenticated connection"),
 "C09-1": ("C09", "DailyMutations lives as long as the writer thread and skips the UPSERT of marks already written since the last compute; the set is filled before COMMIT and not corrected on rollback: after a failed commit the retried write is committed without its marks", "a COMMIT failure, then the same days written again before the next compute (streams, sync batches)"),
 "C09-2": ("C09", "InsertEntity::update_daily_logs returns early for an entity without room BEFORE recursing into its sub entities: a shared child created/updated through a private (room-less) owner is not marked", "a room-less parent with a sub entity that has its own room"),
 "C10-1": ("C10", "prepare_room_with_history verifies all new admin entries against the room as the peer held it, before adding any: an admin entry authored by an admin who is new in the same import is refused; the peer holding an earlier version rejects the update for ever while a fresh peer accepts it", "a peer that skips a version in which a newly added admin added another admin"),
 "C10-2": ("C10", "the authorisation actor installs the rooms computed by the FIRST validation of a room mutation instead of re-validating on the writer's acknowledgement: two room mutations in flight are both computed from the same base room; the live room loses acknowledged entries that reload and import have", "two mutations of one room sent without awaiting each other"),
 "C11-1": ("C11", "the tombstone lookup of Node::filter_existing selects the version named by the most recent deletion record instead of the highest version named by any record", "a row with two deletion records where the later deletion names an older version"),
 "C11-2": ("C11", "the loop cutting a day's deletion records into answers drops the record that overflows a full batch (push moved into the else branch), on every attempt: those records never reach the other members", "more deletion records on one (room, entity, day) than fit in one answer (small write_buffer_length)"),
 "C12-1": ("C12", "validate_mutation signs after the validation loop: the local size check measures a created row with empty key and signature (96 bytes less than what peers measure)", "a created row whose signed size lies in the 96 bytes just above max_node_size"),
 "C12-2": ("C12", "validate_deletion signs the updated source row of a reference deletion before validating it: the 'own row?' test is then always true, MutateSelf suffices locally while peers require MutateAll", "X's row carries A's reference; mutate_all withdrawn from members; A removes its own reference"),
 "C13-1": ("C13", "the writer keeps a pending_marks set across batches and skips marks already written; the set is updated before COMMIT and never corrected on rollback: after a failed commit the next successful batch on the same key commits its rows without their mark", "a batch failing at/after the marks followed by a successful batch on the same key before the next log computation"),
 "C13-2": ("C13", "BEGIN/COMMIT/ROLLBACK replaced by SAVEPOINT / RELEASE / ROLLBACK TO: after the first failed batch the connection stays inside a transaction, later batches are acknowledged Ok but never committed", "one batch failing on any error exit, then ordinary successful writes"),
 "C14-1": ("C14", "HAVING is emitted only when there are aggregate filters (it was also needed when paging values are present): a valid aggregate query with order_by + after/before and no aggregate filter is rejected by the engine", "aggregate function with order_by and after()/before(), no filter on an aggregate"),
 "C14-2": ("C14", "refused parameter values echoed in error messages are truncated with a byte slice &value[..64]: panics when byte 64 falls inside a multi-byte character, inside a reader thread", "a refused value longer than 64 bytes with a multi-byte character straddling byte 64; four such requests wedge the instance"),
 "C17-1": ("C17", "index maintenance returns early when the row has no current text, before deleting the previous text's entries: a row whose text fields were all set to null still matches its old text", "create with text, null every text field, search the old text"),
 "C17-2": ("C17", "an update re-indexes only the mutated fields; the FTS delete is per trigram and rowid, so occurrences contributed by unchanged fields are removed and not re-inserted", "row with two text fields sharing a trigram, then an update of one of them"),
 "C18-1": ("C18", "InsertEntity::update_daily_logs returns early for a parent that is only referenced (node None) BEFORE the loop over sub_nodes: nested entities mutated through an unchanged parent get no mark, hence no event", "nested update through an unchanged parent whose reference already exists"),
 "C18-2": ("C18", "ComputeDailyLog is forwarded to the writer only when a 'log_outdated' flag (set at submission of a write, cleared by a compute) is set: a faster change's compute consumes the flag, the slower change's own compute request is dropped", "two overlapping changes where the first-submitted one commits last, no later write"),
 "C19-1": ("C19", "the proven key is bound to the connection once, right after the proof, instead of in each token-type arm; failure paths leaving through `?` (e.g. the invite signature check) keep the failing peer's key bound and the connection ready", "an accepted, not yet consumed invitation and a responder proving a valid key that is not the inviter's"),
 "C19-2": ("C19", "the handshake challenge becomes a keyed hash of the peer-announced ConnectionInfo instead of fresh randomness: a recorded IdentityAnswer replayed on a connection re-announcing the same parameters is accepted without the key", "one recorded answer, then a second connection announcing the same ConnectionInfo"),
 "C20-1": ("C20", "acquire_lock stops its queue scan also when the send to a DEAD reply channel failed: a dead waiting connection absorbs the wake-up, a live connection behind it waits although nothing is locked", "a connection that ended while queued, nearer the back of the queue than a live waiting one, at an Unlock"),
 "C20-2": ("C20", "the two release loops at the end of a connection are merged and lock_receiver.close() is gone: a room granted between the drain and the end of the task is dropped with the receiver and never unlocked", "the holder's release of the room processed inside that window"),
}
def last_result(sid):
    p = os.path.join(ROOT, "work", "seedtest_%s.log" % sid)
    if not os.path.exists(p): return None
    txt = open(p).read()
    parts = re.split(r"^== seed \S+ vs check (\S+)\s*$", txt, flags=re.M)
    res = []
    for i in range(1, len(parts), 2):
        chk, body = parts[i], parts[i+1]
        m = re.search(r"obligations (\d+)/(\d+), cases (\d+), correspondence disagreements (\d+), unlisted oracle failures (\d+)", body)
        viol = len(re.findall(r"^VIOLATION", body, flags=re.M)); noin = "no-failing-input-found" in body
        if "PATCH-DOES-NOT-APPLY" in txt: res.append("%s: patch no longer applies to /repo HEAD" % chk); continue
        if not m: res.append("%s: no result" % chk); continue
        if viol and not noin: res.append("%s: CAUGHT with failing input (%s oracle failures, %s disagreements)" % (chk, m.group(5), m.group(4)))
        elif viol: res.append("%s: CAUGHT as broken tie, no-failing-input-found (%s disagreements)" % (chk, m.group(4)))
        else: res.append("%s: missed (exit 0)" % chk)
    return "; ".join(res)
for sid, (prop, breaks, needs) in D.items():
    d = os.path.join(ROOT, "seeded", sid)
    if not os.path.isdir(d): continue
    mp = os.path.join(d, "meta.json")
    old = json.load(open(mp)) if os.path.exists(mp) else {}
    vl = os.path.join(d, "verify.log")
    conf = "coordinator re-ran the seeder's verify.sh in the scratch worktree: unit suite 158/158 with the change, demonstration fails with it and passes without (verify.log)" if os.path.exists(vl) else "seeder's own verify.sh run (coordinator re-run pending)"
    r = last_result(sid)
    j = {"property": prop, "breaks": breaks, "needs_to_manifest": needs,
         "produced_by": "independent sub-agent given only the property text (plus the list of already-known weaknesses to avoid) and a scratch worktree",
         "confirmed": conf,
         "check_result": r or old.get("check_result", "not run yet"),
         "history": old.get("history", [])}
    if old.get("check_result") and r and old["check_result"] != r and old["check_result"] not in j["history"]:
        j["history"] = j["history"] + [old["check_result"]]
    json.dump(j, open(mp, "w"), indent=1)
print("meta written for", len(D))
