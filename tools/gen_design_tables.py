#!/usr/bin/env python3
"""regenerates the generated tables of DESIGN.md (between the markers) from known_findings.d/, seeded/*/meta.json, tools/props.d/"""
import json, glob, os, re
ROOT = os.path.dirname(os.path.dirname(os.path.abspath(__file__)))
def short(s, n=230):
    s = re.sub(r"\s+", " ", s).strip()
    s = re.sub(r"^fixed: property=C\d+ [0-9a-f]+ ", "", s)
    return s if len(s) <= n else s[:n-1] + "…"
rows = []
for f in sorted(glob.glob(os.path.join(ROOT, "known_findings.d", "C*.json"))):
    for e in json.load(open(f))["findings"]:
        rows.append((e["property"], e["class"], e.get("status", "open"), e.get("commit", ""), short(e["what"])))
out = ["| property | class | status | fix commit | what |", "|---|---|---|---|---|"]
for r in rows:
    out.append("| %s | %s | %s | %s | %s |" % r)
nfix = sum(1 for r in rows if r[2] == "fixed"); nopen = len(rows) - nfix
out.append("")
out.append("%d findings in total: %d repaired by `fix:` commits in /repo, %d recorded as open known findings." % (len(rows), nfix, nopen))
findings_md = "\n".join(out)
srows = ["| seed | property | what the change breaks | needs | result against the checks |", "|---|---|---|---|---|"]
for d in sorted(glob.glob(os.path.join(ROOT, "seeded", "*"))):
    m = os.path.join(d, "meta.json")
    if not os.path.exists(m):
        srows.append("| %s | | (metadata pending) | | |" % os.path.basename(d)); continue
    j = json.load(open(m))
    srows.append("| %s | %s | %s | %s | %s |" % (os.path.basename(d), j.get("property", ""), short(j.get("breaks", ""), 260), short(j.get("needs_to_manifest", ""), 160), short(j.get("check_result", ""), 320)))
seeds_md = "\n".join(srows)
prow = ["| property | theorems in props/Cxx.v | quick cases | technique |", "|---|---|---|---|"]
for f in sorted(glob.glob(os.path.join(ROOT, "tools", "props.d", "C*.json"))):
    pid = os.path.basename(f)[:-5]
    c = json.load(open(f))
    src = open(os.path.join(ROOT, "coq", "props", pid + ".v")).read() if os.path.exists(os.path.join(ROOT, "coq", "props", pid + ".v")) else ""
    thms = re.findall(r"^(?:Theorem|Lemma|Example)\s+(\w+)", src, flags=re.M)
    ev = os.path.join(ROOT, "evidence", pid + ".json")
    n = json.load(open(ev))["coverage"].get("evaluations", "") if os.path.exists(ev) else ""
    prow.append("| %s | %d: %s | %s | %s |" % (pid, len(thms), ", ".join("`%s`" % t for t in thms), n, short(c.get("technique", ""), 200)))
props_md = "\n".join(prow)
det = []
for f in sorted(glob.glob(os.path.join(ROOT, "tools", "props.d", "C*.json"))):
    pid = os.path.basename(f)[:-5]
    c = json.load(open(f))
    det.append("#### %s — as built\n" % pid)
    det.append("*What is proved and how it is tied to the code.* " + re.sub(r"\s+", " ", c.get("level_text", "")).strip() + "\n")
    det.append("*Assumed / trusted / not covered.* " + re.sub(r"\s+", " ", c.get("level_note", "")).strip() + "\n")
    if c.get("rule"): det.append("*Cases.* " + re.sub(r"\s+", " ", c["rule"]).strip() + "\n")
    tb = c.get("trusted_base", [])
    if tb: det.append("*Property-specific trusted base.* " + "; ".join(re.sub(r"\s+", " ", t).strip() for t in tb) + "\n")
    tr = c.get("translators", [])
    if tr: det.append("*Translators (regenerate coq/gen on every run).* " + ", ".join("`tools/%s`" % t for t in tr) + "\n")
details_md = "\n".join(det)
p = os.path.join(ROOT, "DESIGN.md"); s = open(p).read()
def put(s, tag, body):
    a, b = "<!-- BEGIN %s -->" % tag, "<!-- END %s -->" % tag
    if a not in s:
        return s
    i, j = s.index(a) + len(a), s.index(b)
    return s[:i] + "\n" + body + "\n" + s[j:]
s = put(s, "PROPDETAILS", details_md); s = put(s, "FINDINGS", findings_md); s = put(s, "SEEDS", seeds_md); s = put(s, "PROPS", props_md)
open(p, "w").write(s)
print("tables regenerated: %d findings, %d seeds" % (len(rows), len(srows) - 2))
