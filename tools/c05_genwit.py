#!/usr/bin/env python3
"""regenerate coq/proofs/C05Wit.v (closed witnesses = the directed cases of harness/src/bin/c05.rs) from the
cases file of the last `./chk check C05` run.  Only needed when the directed cases change."""
import json, os, sys
ROOT = os.path.dirname(os.path.dirname(os.path.abspath(__file__)))
cs = [c for c in (json.loads(l) for l in open(sys.argv[1] if len(sys.argv) > 1 else os.path.join(ROOT, "work/C05/cases_c05.jsonl"))) if "obs" in c]
want = {'directed-K1-ties': ('w_K1_ties', [1]), 'directed-K1-null-key': ('w_K1_null_key', [1]), 'directed-K1-null-key-single': ('w_K1_null_key_single', [1]),
        'directed-K2-raw-order-key': ('w_K2_raw_order_key', [2]), 'directed-K3-bool-default': ('w_K3_bool_default', [3]),
        'directed-K6-null-variable-eq': ('w_K6_eq', [6]), 'directed-K6-null-variable-ne': ('w_K6_ne', [6]), 'directed-K7-first-variable-zero': ('w_K7_first_zero', [7])}
# classes repaired in /repo: their directed cases now satisfy the oracle
fixed = [('directed-K4-skip-alone', 'w_K4_skip_alone'), ('directed-K5-variable-named-like-literal', 'w_K5_literal'),
         ('directed-K5-variable-named-like-default', 'w_K5_default'), ('directed-K8-default-with-quote', 'w_K8_quote'),
         ('directed-agg-minmax-text-order', 'w_K9_minmax'), ('directed-agg-avg-counts-null', 'w_K10_avg')]
out = ["(* C05Wit.v — closed witnesses: the directed cases of harness/src/bin/c05.rs (one per known-finding class) as Gallina terms,",
       "   with the model's verdict checked by vm_compute.  The same cases are replayed on the real code on every run.",
       "   (snapshot of the harness output; regenerate with tools/c05_genwit.py if the directed cases change) *)",
       "From DV Require Import Run_C05.", "Open Scope Z_scope.", ""]
seen = set()
for c in cs:
    k = c['kind']
    if k in want and k not in seen:
        seen.add(k); name, cl = want[k]
        out.append("(* %s : %s *)" % (k, c['meta']['query'].replace('"', "'")))
        out.append("Definition %s : c05case := %s." % (name, c['coq']))
        out.append("Lemma %s_refuted : spec_C05 %s (run_C05 %s) = false /\\ known_C05 %s = [%s]." % (name, name, name, name, "; ".join(map(str, cl))))
        out.append("Proof. vm_compute. split; reflexivity. Qed.")
        out.append("")
for k, name in fixed:
    c = [x for x in cs if x['kind'] == k][0]
    out.append("(* %s (repaired) : %s *)" % (k, c['meta']['query'].replace('"', "'")))
    out.append("Definition %s : c05case := %s." % (name, c['coq']))
    out.append("Lemma %s_holds : spec_C05 %s (run_C05 %s) = true /\\ known_C05 %s = []." % (name, name, name, name))
    out.append("Proof. vm_compute. split; reflexivity. Qed.")
    out.append("")
for k, name in [('directed-nested-exists-skip', 'w_nested_exists_skip'), ('directed-nested-nullable-skip', 'w_nested_nullable_skip'),
                ('directed-nested-exists-first-skip', 'w_nested_first_skip'), ('directed-nested-two-levels', 'w_nested_two_levels'),
                ('directed-nested-entity-ref', 'w_nested_entity_ref')]:
    c = [x for x in cs if x.get('kind') == k][0]
    out.append("(* %s : %s *)" % (k, c['meta']['query'].replace('"', "'")))
    out.append("Definition %s : c05case := %s." % (name, c['coq']))
    out.append("Lemma %s_ok : spec_C05 %s (run_C05 %s) = true /\\ known_C05 %s = [] /\\ wf_C05 %s = [1; 1]." % (name, name, name, name, name))
    out.append("Proof. vm_compute. repeat split; reflexivity. Qed.")
    out.append("")
for k, name in [('directed-baseline', 'w_baseline'), ('directed-pages-unique-key', 'w_pages_unique'), ('directed-agg-count-sum', 'w_agg_count_sum'),
                ('directed-agg-no-row', 'w_agg_no_row'), ('directed-agg-having-order-limit', 'w_agg_having'), ('directed-agg-null-group', 'w_agg_null_group'), ('directed-jsel', 'w_jsel'),
                ('directed-agg-order-by-name-of-aliased-group', 'w_agg_order_name'), ('directed-order-by-name-of-aliased-field', 'w_order_name_aliased'),
                ('directed-pages-by-name-of-aliased-field', 'w_pages_name_aliased'), ('directed-after-by-name-of-aliased-field', 'w_after_name_aliased')]:
    c = [x for x in cs if x['kind'] == k][0]
    out.append("(* %s : %s *)" % (k, c['meta']['query'].replace('"', "'")))
    out.append("Definition %s : c05case := %s." % (name, c['coq']))
    out.append("Lemma %s_ok : spec_C05 %s (run_C05 %s) = true /\\ known_C05 %s = [] /\\ wf_C05 %s = [1; 1]." % (name, name, name, name, name))
    out.append("Proof. vm_compute. repeat split; reflexivity. Qed.")
    out.append("")
open(os.path.join(ROOT, "coq/proofs/C05Wit.v"), "w").write("\n".join(out))
