#!/usr/bin/env python3
"""extract_writer.py /repo /verif/coq/gen  ->  coq/gen/WriterSkeleton.v

Regenerates the statement skeleton of the batch writer from the CURRENT source of
src/database/sqlite_database.rs:
  * `process_batch_write`: the order of the top-level statements (BEGIN, the loop over the
    batch, daily_log.write, COMMIT, PRAGMA optimize), per `WriteMessage` arm the fallible call
    (= statement group), whether its error exit issues ROLLBACK before returning, whether the
    arm feeds the daily-log marks, whether it is a loop over items; whether the error exits of
    daily_log.write / COMMIT issue ROLLBACK; where the H4 instrumentation points sit;
  * the acknowledgement loop of the writer thread: that it runs after process_batch_write has
    returned, and per message kind which acknowledgement the Ok branch and the Err branch send
    (directly to the caller / through the authorisation actor / DbMessage / none) and with which
    polarity.
Deliberately syntactic. If the code is no longer recognised the script prints the reason and
exits 1 WITHOUT touching the old file's content (it removes it, so that nothing stale is used).
"""
import os, re, sys

KINDS = ["Deletion", "Mutation", "MutationStream", "Nodes", "Edges", "RoomMutation", "RoomMutationStream",
         "RoomNode", "Write", "ComputeDailyLog", "DeleteEdges", "DeleteNodes", "Optimize"]
COQ_KIND = {"Deletion": "KDeletion", "Mutation": "KMutation", "MutationStream": "KMutationStream", "Nodes": "KNodes",
            "Edges": "KEdges", "RoomMutation": "KRoomMutation", "RoomMutationStream": "KRoomMutationStream",
            "RoomNode": "KRoomNode", "Write": "KWrite", "ComputeDailyLog": "KCompute", "DeleteEdges": "KDeleteEdges",
            "DeleteNodes": "KDeleteNodes", "Optimize": "KOptimize"}


class Refuse(Exception):
    pass


def strip_comments(src):
    out = []
    for line in src.split("\n"):
        # no string literal of the two functions contains "//"
        i = line.find("//")
        out.append(line if i < 0 else line[:i])
    return "\n".join(out)


def block_at(src, open_idx):
    """src[open_idx] == '{' ; returns index just behind the matching '}' (string literals of this file's two
    functions contain no braces)"""
    assert src[open_idx] == "{"
    depth = 0
    for i in range(open_idx, len(src)):
        if src[i] == "{":
            depth += 1
        elif src[i] == "}":
            depth -= 1
            if depth == 0:
                return i + 1
    raise Refuse("unbalanced braces")


def split_arms(body):
    """body of `match x { ... }` (without the outer braces) -> list of (pattern, arm text)"""
    arms = []
    i = 0
    n = len(body)
    while i < n:
        m = re.compile(r"\s*(WriteMessage::\w+(?:\([^)]*\))?(?:\s*\|\s*WriteMessage::\w+(?:\([^)]*\))?)*)\s*=>\s*", re.S).match(body, i)
        if not m:
            if body[i:].strip() == "":
                break
            raise Refuse("match arm not recognised near: %r" % body[i:i + 80])
        j = m.end()
        if body[j] == "{":
            e = block_at(body, j)
            arms.append((m.group(1), body[j + 1:e - 1]))
            i = e
            if body[i:i + 1] == ",":
                i += 1
        else:
            e = body.index(",", j)
            arms.append((m.group(1), body[j:e]))
            i = e + 1
    out = []
    for pat, text in arms:
        for alt in re.split(r"\s*\|\s*(?=WriteMessage::)", pat):
            out.append((alt.strip(), text))
    return out


HOOK = re.compile(r'#\[cfg\(feature = "verif"\)\]\s*verif_faults::(\w+)\(([^;]*)\)\??;')
# the same point when the statement behind it has an error exit with ROLLBACK: the injected failure takes that exit too
HOOK_RB = re.compile(r'#\[cfg\(feature = "verif"\)\]\s*if let Err\(e\) = verif_faults::(\w+)\(([^;{]*)\)\s*\{\s*'
                     r'conn\.execute\("ROLLBACK", \[\]\)\?;\s*return Err\(e\);\s*\}')


def hooks_in(text):
    found = [(m.start(), m.group(1), m.group(2)) for m in HOOK.finditer(text)] + \
            [(m.start(), m.group(1), m.group(2)) for m in HOOK_RB.finditer(text)]
    return [(n, a) for (_, n, a) in sorted(found)]


def hook_exits_with_rollback(text, point):
    return any(point in m.group(2) for m in HOOK_RB.finditer(text))


def without_hooks(text):
    return HOOK.sub("", HOOK_RB.sub("", text))


def norm(s):
    return re.sub(r"\s+", " ", s).strip()


ROLLBACK_HELPER = re.compile(
    r"fn (\w+)\s*<\s*(\w+)\s*>\s*\(\s*(\w+)\s*:\s*(?:std::result::)?Result<\s*\2\s*,\s*rusqlite::Error\s*>\s*,\s*conn\s*:\s*&Connection\s*,?\s*\)"
    r"\s*->\s*(?:std::result::)?Result<\s*\2\s*,\s*rusqlite::Error\s*>\s*\{\s*match \3\s*\{\s*Ok\((\w+)\)\s*=>\s*Ok\(\4\)\s*,"
    r"\s*Err\((\w+)\)\s*=>\s*\{\s*conn\.execute\(\"ROLLBACK\", \[\]\)\?;\s*Err\(\5\)\s*,?\s*\}\s*,?\s*\}\s*\}")


def inline_rollback_helpers(src):
    """a helper that is exactly `match step { Ok(x) => Ok(x), Err(e) => { conn.execute("ROLLBACK", [])?; Err(e) } }`
    (the error exit of a statement group moved into a function) is expanded at its call sites
    `Self::helper(EXPR, conn)?;`  ->  `if let Err(e) = EXPR { conn.execute("ROLLBACK", [])?; return Err(e); }`
    so that the skeleton is read off the same shape whether or not the exit was factored out"""
    for hm in list(ROLLBACK_HELPER.finditer(src)):
        name = hm.group(1)
        call = re.compile(r"(?:let\s+_\s*=\s*)?Self::%s\s*\(" % re.escape(name))
        out, i = "", 0
        while True:
            cm = call.search(src, i)
            if not cm:
                out += src[i:]; break
            # matching parenthesis of the call
            depth, k = 0, cm.end() - 1
            while k < len(src):
                if src[k] == "(": depth += 1
                elif src[k] == ")":
                    depth -= 1
                    if depth == 0: break
                k += 1
            inner = src[cm.end():k]
            am = re.match(r"^(.*),\s*conn\s*,?\s*$", inner, flags=re.S)
            tm = re.compile(r"\s*\?\s*;").match(src, k + 1)
            if not am or not tm:
                out += src[i:k + 1]; i = k + 1; continue
            expr = " ".join(am.group(1).split())
            expr = re.sub(r"\(\s+", "(", re.sub(r",?\s+\)", ")", expr))
            out += src[i:cm.start()] + 'if let Err(e) = %s {\n conn.execute("ROLLBACK", [])?;\n return Err(e);\n }' % expr
            i = tm.end()
        src = out
    return src


def extract_process_batch_write(src):
    m = re.search(r"fn process_batch_write\s*\(", src)
    if not m:
        raise Refuse("fn process_batch_write not found")
    o = src.index("{", src.index("->", m.end()))
    body = src[o + 1:block_at(src, o) - 1]
    # ---- the loop over the batch
    lm = re.search(r"for query in buffer\s*\{", body)
    if not lm:
        raise Refuse("`for query in buffer` not found")
    lo = lm.end() - 1
    le = block_at(body, lo)
    loop = body[lo + 1:le - 1]
    before, after = body[:lm.start()], body[le:]
    mm = re.match(r"\s*match query\s*\{", loop)
    if not mm or loop[block_at(loop, mm.end() - 1):].strip() != "":
        raise Refuse("the loop body is not a single `match query { .. }`")
    arms_src = split_arms(loop[mm.end():block_at(loop, mm.end() - 1) - 1])
    # ---- top-level statement order
    seq = []
    pos = []
    for name, rx, text in [("SBegin", r'conn\.execute\("BEGIN TRANSACTION", \[\]\)\?;', before),
                           ("SMarks", r"daily_log\.write\(conn\)", after),
                           ("SCommit", r'conn\.execute\("COMMIT", \[\]\)', after),
                           ("SOptimize", r'conn\.execute\("PRAGMA optimize;", \[\]\)', after)]:
        ms = list(re.finditer(rx, without_hooks(text)))
        if len(ms) != 1:
            raise Refuse("%s: expected exactly one occurrence, found %d" % (name, len(ms)))
        pos.append((0 if text is before else 2, ms[0].start(), name))
    pos.append((1, 0, "SLoop"))
    seq = [p[2] for p in sorted(pos)]
    outside = re.findall(r'conn\.execute\("([A-Za-z ]+)', without_hooks(before + after))
    for other in outside:
        if other not in ("BEGIN TRANSACTION", "COMMIT", "PRAGMA optimize", "ROLLBACK"):
            raise Refuse("unexpected statement outside the loop: %s" % other)

    def exit_of(text, call_rx):
        """how the statement matching call_rx leaves on error: 'plain' = `stmt?;`, 'rollback' = if let Err(e) = stmt { ROLLBACK; return Err(e) }"""
        t = norm(without_hooks(text))
        if re.search(call_rx + r"\?;", t):
            return False
        if re.search(r"if let Err\(e\) = " + call_rx + r" \{ conn\.execute\(\"ROLLBACK\", \[\]\)\?; return Err\(e\); \}", t):
            return True
        raise Refuse("error exit of %s not recognised" % call_rx)

    marks_rollback = exit_of(after, r"daily_log\.write\(conn\)")
    commit_rollback = exit_of(after, r'conn\.execute\("COMMIT", \[\]\)')
    if outside.count("ROLLBACK") != int(marks_rollback) + int(commit_rollback):
        raise Refuse("a ROLLBACK outside the loop that is not the error exit of daily_log.write / COMMIT")
    if not re.search(r"Ok\(\(\)\)\s*$", norm(after)):
        raise Refuse("process_batch_write does not end with Ok(())")
    # ---- arms
    arms = {}
    for pat, text in arms_src:
        kind = re.match(r"WriteMessage::(\w+)", pat).group(1)
        if kind in arms:
            raise Refuse("arm %s appears twice" % kind)
        hk = hooks_in(text)
        t = norm(without_hooks(text))
        a = {"fallible": False, "rollback": False, "marks": False, "loop": False, "call": "", "points": False}
        if kind == "Optimize":
            if t != "optimize = true":
                raise Refuse("Optimize arm not recognised: %r" % t)
            arms[kind] = a
            continue
        lm2 = re.match(r"for (\w+) in (\w+) \{ (.*) \}$", t)
        inner = t
        if lm2:
            a["loop"] = True
            inner = lm2.group(3)
        cm = re.match(r"if let Err\(e\) = (.+?) \{ (.*?) \}(.*)$", inner)
        if not cm:
            raise Refuse("arm %s: no `if let Err(e) = <call> { .. }`: %r" % (kind, inner[:120]))
        a["fallible"] = True
        a["call"] = cm.group(1)
        err_exit, rest = cm.group(2), cm.group(3).strip()
        if err_exit == 'conn.execute("ROLLBACK", [])?; return Err(e);':
            a["rollback"] = True
        elif err_exit == "return Err(e);":
            a["rollback"] = False
        else:
            raise Refuse("arm %s: error exit not recognised: %r" % (kind, err_exit))
        if rest not in ("", "%s.update_daily_logs(&mut daily_log);" % (lm2.group(1) if lm2 else "query")):
            raise Refuse("arm %s: unexpected statement after the group: %r" % (kind, rest))
        a["marks"] = ("update_daily_logs(&mut daily_log)" in rest) or ("&mut daily_log" in a["call"])
        if "if let Err" in rest or inner.count("if let Err(e)") != 1:
            raise Refuse("arm %s: more than one fallible call" % kind)
        # H4 points: group(conn, n) in front of the call, group_end(conn, n) behind it
        names = [h[0] for h in hk]
        a["points"] = names == ["group", "group_end"] and hk[0][1] == hk[1][1]
        arms[kind] = a
    missing = [k for k in KINDS if k not in arms]
    if missing or len(arms) != len(KINDS):
        raise Refuse("arms of process_batch_write differ from the known message kinds: missing %s, extra %s" %
                     (missing, [k for k in arms if k not in KINDS]))
    # H4 points outside the loop, in order
    top = [(h[0], norm(h[1])) for h in hooks_in(before)] + ["LOOP"] + [(h[0], norm(h[1])) for h in hooks_in(after)]
    expected = [("batch", "buffer"), ("point", "verif_faults::P_BEGIN, 0"), "LOOP", ("point", "verif_faults::P_MARKS, 0"),
                ("point", "verif_faults::P_COMMIT, 0"), ("point", "verif_faults::P_COMMITTED, 0")]
    points_top = top == expected
    if points_top:
        # each point directly in front of (behind) its statement, and leaving through the same kind of exit
        t = norm(body)
        RB = r' \{ conn\.execute\("ROLLBACK", \[\]\)\?; return Err\(e\); \}'
        front = lambda pt, stmt, rb: (r"if let Err\(e\) = verif_faults::point\(verif_faults::%s, 0\)%s if let Err\(e\) = %s%s" % (pt, RB, stmt, RB)) if rb \
            else (r"verif_faults::point\(verif_faults::%s, 0\)\?; %s\?;" % (pt, stmt))
        points_top = bool(re.search(r'verif_faults::point\(verif_faults::P_BEGIN, 0\)\?; conn\.execute\("BEGIN TRANSACTION"', t)
                          and re.search(front("P_MARKS", r"daily_log\.write\(conn\)", marks_rollback), t)
                          and re.search(front("P_COMMIT", r'conn\.execute\("COMMIT", \[\]\)', commit_rollback) +
                                        r' #\[cfg\(feature = "verif"\)\] verif_faults::point\(verif_faults::P_COMMITTED, 0\)\?;', t))
    return seq, arms, marks_rollback, commit_rollback, points_top


def classify_send(kind, text, want_ok):
    """-> (route, polarity_ok)"""
    t = norm(text)
    if kind == "Optimize":
        if t != "":
            raise Refuse("ack of Optimize not recognised: %r" % t)
        return "RNone", True
    pol = "Ok" if want_ok else "Err"
    m = re.match(r"let _ = r \.?\s*(send|blocking_send)\((.*)\);$", t.replace("r.", "r ."))
    if not m:
        raise Refuse("ack of %s not recognised: %r" % (kind, t[:120]))
    arg = m.group(2).strip().rstrip(",").strip()
    am = re.match(r"AuthorisationMessage::(\w+)\(\s*(Ok|Err)\(", arg)
    if am:
        return "RAuth", am.group(2) == pol
    dm = re.match(r"DbMessage::DailyLogComputed\(\s*(Ok|Err)\(", arg)
    if dm:
        return "RDb", dm.group(1) == pol
    pm = re.match(r"(Ok|Err)\(", arg)
    if pm:
        return "RDirect", pm.group(1) == pol
    raise Refuse("ack of %s: argument not recognised: %r" % (kind, arg[:100]))


def extract_ack_loop(src):
    """the writer thread: `while let Some(mut buffer) = receive_buffer.blocking_recv() { let result = process_batch_write;
    [H4 point] match result { Ok(_) => {..} Err(e) => {..} } let _s = send_ready.blocking_send(true); }` and NOTHING else:
    every batch is written once, answered once (by one of the two branches), never queued again"""
    m = re.search(r"let result = Self::process_batch_write\(&mut buffer, &conn\);", src)
    if not m:
        raise Refuse("call of process_batch_write in the writer thread not found")
    if len(re.findall(r"process_batch_write\(", src)) != 2:   # the definition and this call
        raise Refuse("process_batch_write is called from more than one place")
    # the enclosing loop
    wl = list(re.finditer(r"thread::spawn\(move \|\| \{\s*while let Some\(mut buffer\) = receive_buffer\.blocking_recv\(\)\s*\{", src[:m.start()]))
    if not wl or src[wl[-1].end():m.start()].strip() != "":
        raise Refuse("the writer thread does not start with `while let Some(mut buffer) = receive_buffer.blocking_recv() { let result = ..`")
    lo = wl[-1].end() - 1
    loop_body = src[lo + 1:block_at(src, lo) - 1]
    behind_loop = src[block_at(src, lo):]
    if not re.match(r"\s*\}\s*\);", behind_loop):
        raise Refuse("statements behind the writer thread's loop")
    rest = src[m.end():]
    hk = hooks_in(rest[:200])
    rest2 = without_hooks(rest[:200]) + rest[200:]
    mm = re.match(r"\s*match result\s*\{", rest2)
    if not mm:
        raise Refuse("`match result` does not follow the call of process_batch_write")
    match_end = block_at(rest2, mm.end() - 1)
    tail = rest2[match_end:]
    tm = re.match(r"\s*let _s = send_ready\.blocking_send\(true\);\s*\}\s*\}\s*\);", tail)
    if not tm:
        raise Refuse("the acknowledgement `match result {..}` is not followed by `send_ready.blocking_send(true)` and the end of the loop")
    if len(re.findall(r"\bbuffer\b", without_hooks(loop_body))) != 3:   # the call and the two `for msg in buffer`
        raise Refuse("the batch buffer is used outside the call of process_batch_write and the two acknowledgement loops")
    body = rest2[mm.end():match_end - 1]
    okm = re.match(r"\s*Ok\(_\)\s*=>\s*\{", body)
    if not okm:
        raise Refuse("Ok branch of the acknowledgement not found")
    oke = block_at(body, okm.end() - 1)
    okb = body[okm.end():oke - 1]
    errm = re.match(r"\s*,?\s*Err\(e\)\s*=>\s*\{", body[oke:])
    if not errm:
        raise Refuse("Err branch of the acknowledgement not found")
    erre = block_at(body[oke:], errm.end() - 1)
    errb = body[oke:][errm.end():erre - 1]
    if body[oke:][erre:].strip(" \n,") != "":
        raise Refuse("a third branch in the acknowledgement `match result`")
    res = {}
    for want_ok, b in ((True, okb), (False, errb)):
        # bindings in front of the loop (e.g. the error text computed once) do not acknowledge anything
        while True:
            lm = re.match(r"\s*let\b[^;{}]*;", b)
            if not lm or re.search(r"\b(send|blocking_send)\s*\(", lm.group(0)): break
            b = b[lm.end():]
        fm = re.match(r"\s*for msg in buffer\s*\{\s*match msg\s*\{", b)
        if not fm:
            raise Refuse("acknowledgement branch is not `for msg in buffer { match msg { .. } }`")
        inner = b[fm.end():block_at(b, fm.end() - 1) - 1]
        for pat, text in split_arms(inner):
            kind = re.match(r"WriteMessage::(\w+)", pat).group(1)
            res.setdefault(kind, {})[want_ok] = classify_send(kind, text, want_ok)
    if sorted(res) != sorted(KINDS) or any(len(v) != 2 for v in res.values()):
        raise Refuse("acknowledgement arms differ from the known message kinds")
    point_ack = [h[0] for h in hk] == ["before_ack"]
    return res, point_ack


STMT_HOOK = re.compile(r'#\[cfg\(feature = "verif"\)\]\s*crate::database::sqlite_database::verif_faults::stmt\(conn, (\d+)\)\?;')


def fn_body(src, header_rx):
    m = re.search(header_rx, src)
    if not m:
        raise Refuse("function not found: %s" % header_rx)
    o = src.index("{", m.end())
    return src[o + 1:block_at(src, o) - 1]


def stmt_steps(body, what):
    """a function body made of `X?;` statements, `for .. { .. }` loops of fallible statements, H4b points and a
    final Ok(()) -> (site, [1 = statement, 2 = loop, 0 = point])"""
    steps, sites = [], set()
    i, n = 0, len(body)
    while i < n:
        rest = body[i:]
        if rest.strip() == "" or re.match(r"\s*Ok\(\(\)\)\s*$", rest):
            break
        m = STMT_HOOK.match(rest.lstrip())
        if m:
            steps.append(0)
            sites.add(int(m.group(1)))
            i += len(rest) - len(rest.lstrip()) + m.end()
            continue
        m = re.match(r"\s*for [^{]+\{", rest)
        if m:
            e = block_at(rest, m.end() - 1)
            inner = rest[m.end():e - 1]
            if "?" not in inner:
                raise Refuse("%s: loop without fallible statement" % what)
            steps.append(2)
            i += e
            continue
        m = re.match(r"\s*[^;{}]+\?;", rest)
        if m:
            steps.append(1)
            i += m.end()
            continue
        raise Refuse("%s: statement not recognised near %r" % (what, rest.strip()[:80]))
    return steps, sites


def extract_stmts(repo):
    rd = lambda f: strip_comments(open(os.path.join(repo, "src/database", f)).read())
    mq, dl, au, gd = rd("mutation_query.rs"), rd("deletion.rs"), rd("authorisation_service.rs"), rd("graph_database.rs")
    im = re.search(r"impl InsertEntity \{", mq)
    if not im:
        raise Refuse("impl InsertEntity not found")
    table = []
    for site, body, what in [
            (1, fn_body(mq[im.end():], r"fn write\(&mut self, conn: &Connection\)"), "InsertEntity::write"),
            (2, fn_body(dl, r"pub fn delete\(\s*&mut self,\s*conn: &rusqlite::Connection,?\s*\)"), "DeletionQuery::delete"),
            (4, fn_body(au[au.index("impl Writeable for RoomMutationWriteQuery"):], r"fn write\("), "RoomMutationWriteQuery::write"),
            (5, fn_body(au[au.index("impl Writeable for RoomMutationStreamWriteQuery"):], r"fn write\("), "RoomMutationStreamWriteQuery::write"),
            (6, fn_body(au[au.index("impl Writeable for RoomNodeWriteQuery"):], r"fn write\("), "RoomNodeWriteQuery::write")]:
        steps, found = stmt_steps(body, what)
        allowed = {1: {1}, 2: {2, 3}, 4: {4, 5}, 5: {4, 5}, 6: {6}}[site]
        if not found <= allowed:
            raise Refuse("%s: points of sites %s" % (what, sorted(found)))
        table.append((site, steps))
    # start-up: the point directly in front of the recompute request of start()
    t = norm(gd)
    start_pt = bool(re.search(r'verif_faults::start_point\(crate::database::sqlite_database::verif_faults::P_START\); database \.writer \.send\(WriteMessage::ComputeDailyLog\(', t))
    return table, start_pt


def main():
    repo, gen = sys.argv[1], sys.argv[2]
    out = os.path.join(gen, "WriterSkeleton.v")
    try:
        src = inline_rollback_helpers(strip_comments(open(os.path.join(repo, "src/database/sqlite_database.rs")).read()))
        seq, arms, marks_rb, commit_rb, points_top = extract_process_batch_write(src)
        acks, point_ack = extract_ack_loop(src)
        stmts, start_pt = extract_stmts(repo)
        start_done = bool(re.search(r'DbMessage::DailyLogComputed\(Ok\(q\)\)\); #\[cfg\(feature = "verif"\)\] verif_faults::start_done\(\);', norm(src)))
    except (Refuse, ValueError, AssertionError) as e:
        if os.path.exists(out):
            os.remove(out)
        print("extract_writer: the batch writer is no longer recognised: %s" % e)
        return 1
    b = lambda x: "true" if x else "false"
    lines = ["(* GENERATED by tools/extract_writer.py from /repo/src/database/sqlite_database.rs - do not edit.",
             "   Statement skeleton of BufferedDatabaseWriter::process_batch_write and of the acknowledgement loop. *)",
             "From DV Require Export Writer.", "",
             "Definition code_skeleton : skeleton := {|",
             "  sk_seq := [%s];" % "; ".join(seq),
             "  sk_marks_rollback := %s;   (* error exit of daily_log.write(conn) issues ROLLBACK *)" % b(marks_rb),
             "  sk_commit_rollback := %s;  (* error exit of COMMIT issues ROLLBACK *)" % b(commit_rb),
             "  sk_ack_after_return := true; (* `match result` directly follows the call of process_batch_write *)",
             "  sk_points := %s;           (* H4 points at BEGIN / marks / COMMIT / after COMMIT / before the acknowledgement *)" % b(points_top and point_ack),
             "  sk_arms := ["]
    rows = []
    for k in KINDS:
        a = arms[k]
        (ro, po), (re_, pe) = acks[k][True], acks[k][False]
        rows.append("    {| a_kind := %s; a_fallible := %s; a_rollback := %s; a_marks := %s; a_loop := %s; a_points := %s;\n"
                    "       a_ok := %s; a_ok_pol := %s; a_err := %s; a_err_pol := %s |}  (* %s *)" %
                    (COQ_KIND[k], b(a["fallible"]), b(a["rollback"]), b(a["marks"]), b(a["loop"]), b(a["points"] or not a["fallible"]),
                     ro, b(po), re_, b(pe), a["call"] or "-"))
    lines.append(";\n".join(rows))
    lines += ["  ];",
              "  sk_stmts := [%s]%%N;" % "; ".join("(%d, [%s])" % (site, "; ".join(str(x) for x in st)) for site, st in stmts),
              "  sk_start_points := %s |}." % b(start_pt and start_done), ""]
    txt = "\n".join(lines)
    os.makedirs(gen, exist_ok=True)
    if not os.path.exists(out) or open(out).read() != txt:
        open(out, "w").write(txt)
    print("extract_writer: %d arms, sequence %s, marks_rollback=%s commit_rollback=%s" % (len(KINDS), seq, marks_rb, commit_rb))
    return 0


if __name__ == "__main__":
    sys.exit(main())
