#!/usr/bin/env python3
"""prints the extra context for a seeding sub-agent of property <pid>: the weaknesses that already exist at HEAD
(open findings) and the changes earlier seeders already tried, so that a new change attacks what holds today and differs."""
import json, sys, glob, os
pid = sys.argv[1]
root = os.path.dirname(os.path.dirname(os.path.abspath(__file__)))
out = []
try:
    fs = [x for x in json.load(open(f"{root}/known_findings.d/{pid}.json"))["findings"] if x["status"] == "open"]
except FileNotFoundError:
    fs = []
if fs:
    out.append("Weaknesses of this property that ALREADY exist at HEAD (they are known; do not rely on them and do not re-introduce or widen them — your change must break something that holds today):")
    for x in fs: out.append(" - " + x["what"][:700])
prev = []
for d in sorted(glob.glob(f"{root}/seeded/{pid}-*")):
    try: prev.append(json.load(open(d + "/meta.json"))["breaks"][:400])
    except Exception: pass
if prev:
    out.append("Changes that other people already tried for this property (produce something DIFFERENT: another function, another mechanism, another part of the statement):")
    for p in prev: out.append(" - " + p)
print("\n".join(out))
