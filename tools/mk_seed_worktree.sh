#!/bin/bash
# usage: tools/mk_seed_worktree.sh C16   -> scratch worktree /tmp/seed_C16 of /repo HEAD (+ copy of /repo/target), property text in /tmp/seed_C16_property.json
set -e
P=$1
git -C /repo worktree add -q /tmp/seed_$P HEAD
cp -r /repo/target /tmp/seed_$P/target
cp /repo/Cargo.lock /tmp/seed_$P/Cargo.lock 2>/dev/null || true   # (untracked in /repo: without it every dependency is re-resolved and rebuilt)
python3 - "$P" <<'PY'
import json,sys
pid=sys.argv[1]
for l in open('/verif/properties.jsonl'):
    p=json.loads(l)
    if p['id']==pid:
        json.dump({k:p[k] for k in ['id','title','statement','quantifier','why_tests_cant','anchors']}, open('/tmp/seed_%s_property.json'%pid,'w'), indent=1)
PY
echo /tmp/seed_$P
