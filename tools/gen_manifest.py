#!/usr/bin/env python3
"""writes /verif/MANIFEST.json from tools/props.py (claimed) and the not_applicable table below"""
import json, os, sys
ROOT = os.path.dirname(os.path.dirname(os.path.abspath(__file__)))
sys.path.insert(0, os.path.join(ROOT, "tools"))
import props
CLAIMED = set(json.load(open(os.path.join(ROOT, 'tools', 'claimed.json'))))
ALL = ["C%02d" % i for i in range(1, 21)]
NOT_YET = "check not built yet in this round (planned, see DESIGN.md section 4); not claimed until its theorem and correspondence run exist"
m = {
 "version": 1,
 "setup_cmd": "cd /verif && ./chk setup",
 "hooks": {
   "guard": "cargo feature `verif` of the discret crate",
   "enable": "the harness crate depends on discret = { path = \"/repo\", features = [\"verif\"] }; checks run `cargo build --offline` in /verif/harness against /repo's working tree",
   "baseline_off_cmd": "cd /repo && cargo nextest run --workspace --no-fail-fast --tool-config-file pb:/w/lib/nextest.toml --profile pb --test-threads 8 --offline || cargo test --workspace --no-fail-fast --offline",
   "source_commits": props.HOOK_COMMITS,
   "add_only": True,
 },
 "engines": [
   {"name": "coq", "path": "coq/", "serves_properties": sorted(CLAIMED),
    "kind_free_text": "Rocq/Coq 8.16.1 development: executable models (coq/model), proofs (coq/proofs), property theorems with Print Assumptions (coq/props), evaluation entry points (coq/run), tables regenerated from /repo (coq/gen)"},
   {"name": "harness", "path": "harness/", "serves_properties": sorted(CLAIMED),
    "kind_free_text": "Rust crate linking /repo with feature verif: generates cases from VERIF_SEED, runs the real code, emits the Gallina term of each input and the implementation's observation; ./chk evaluates model and property oracle in coqc (vm_compute) and compares"},
 ],
 "checks": [],
 "notes": "Technique: machine-checked proof in Rocq (Coq 8.16.1) over hand-written executable models, tied to /repo on every run by a correspondence harness (and translators where listed). See DESIGN.md.",
 "not_applicable": [],
}
for pid in ALL:
    if pid in props.P and pid in CLAIMED:
        c = props.P[pid]
        m["checks"].append({
          "property_id": pid,
          "quick_cmd": "./chk check %s --tier quick" % pid,
          "thorough_cmd": "./chk check %s --tier thorough" % pid,
          "evidence_file": "/verif/evidence/%s.json" % pid,
          "replay_cmd_template": "./chk replay {path}",
          "engine": "coq",
          "level_claimed": {"category": "proof", "text": c["level_text"], "design_ref": c.get("design_ref", "DESIGN.md section 4 " + pid)},
          "level_note": c["level_note"],
          "technique": c.get("technique", "Rocq/Coq theorem over an executable model + differential correspondence run against the implementation"),
        })
    else:
        m["not_applicable"].append({"property_id": pid, "reason": props.NOT_CLAIMED.get(pid, NOT_YET)})
json.dump(m, open(os.path.join(ROOT, "MANIFEST.json"), "w"), indent=1)
print("MANIFEST.json: %d checks, %d not claimed" % (len(m["checks"]), len(m["not_applicable"])))
