#!/usr/bin/env python3
"""regenerate coq/proofs/C04Wit.v (closed witnesses = directed cases of harness/src/bin/c04.rs) from the cases
file of the last `./chk check C04` run.  Only needed when the directed cases change."""
import json, os, sys
ROOT = os.path.dirname(os.path.dirname(os.path.abspath(__file__)))
cs = [json.loads(l) for l in open(sys.argv[1] if len(sys.argv) > 1 else os.path.join(ROOT, "work/C04/cases_c04.jsonl"))]
def first(pred): return next(c for c in cs if pred(c))
picks = [
 ("w_K1_literal_backslash", first(lambda c: c["kind"] == "directed-K1-literal-backslash"), [1], False),
 ("w_K1_param_backslash", first(lambda c: c["kind"] == "directed-K1-param-backslash-literal-filter"), [1], False),
 ("w_K1_unicode_escape", first(lambda c: c["kind"] == "directed-K1-literal-unicode-escape"), [1], False),
 ("w_K2_default_quote", first(lambda c: c["kind"] == "default" and c["meta"]["default"] == "it's"), [2], False),
 ("w_K2_default_injection", first(lambda c: c["kind"] == "default" and c["meta"]["default"] == "' OR '1'='1"), [2], False),
 ("w_K3_capture", first(lambda c: c["kind"] == "shape" and c["obs"] == [0]), [3], False),
 ("w_K4_float_display", first(lambda c: c["kind"].startswith("float") and len(c["obs"]) == 5 and c["obs"][3] == 0), [4], False),
 ("w_ok_escaped_quote", first(lambda c: c["kind"] == "directed-literal-escaped-quote-ok"), [], True),
 ("w_ok_param_sql", first(lambda c: c["kind"] == "directed-param-sql"), [], True),
 ("w_ok_default_paired", first(lambda c: c["kind"] == "default" and c["meta"]["default"] == "dd"), [], True),
 ("w_ok_shape", first(lambda c: c["kind"] == "shape" and c["obs"] == [1] and "DROP" in c["meta"]["query"]), [], True),
]
out = ["(* C04Wit.v — closed witnesses: directed cases of harness/src/bin/c04.rs as Gallina terms, the model's verdict",
       "   checked by vm_compute.  The same cases are replayed on the real code on every run.",
       "   (snapshot of the harness output; regenerate with tools/c04_genwit.py if the directed cases change) *)",
       "From DV Require Import Run_C04.", "Open Scope Z_scope.", ""]
for name, c, cl, ok in picks:
    out.append("(* %s : %s *)" % (c["kind"], json.dumps(c["meta"], ensure_ascii=True)[:300].replace("(*", "( *").replace("*)", "* )").replace('"', "'")))
    out.append("Definition %s : c04case := %s." % (name, c["coq"]))
    if ok:
        out.append("Lemma %s_ok : spec_C04 %s (run_C04 %s) = true /\\ known_C04 %s = []." % (name, name, name, name))
    else:
        out.append("Lemma %s_refuted : spec_C04 %s (run_C04 %s) = false /\\ known_C04 %s = [%s]." % (name, name, name, name, "; ".join(map(str, cl))))
    out.append("Proof. vm_compute. split; reflexivity. Qed.")
    out.append("")
open(os.path.join(ROOT, "coq/proofs/C04Wit.v"), "w").write("\n".join(out))
