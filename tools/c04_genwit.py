#!/usr/bin/env python3
"""regenerate coq/proofs/C04Wit.v (closed witnesses = directed cases of harness/src/bin/c04.rs) from the cases
file of the last `./chk check C04` run.  Only needed when the directed cases change."""
import json, os, sys
ROOT = os.path.dirname(os.path.dirname(os.path.abspath(__file__)))
cs = [json.loads(l) for l in open(sys.argv[1] if len(sys.argv) > 1 else os.path.join(ROOT, "work/C04/cases_c04.jsonl"))]
def first(pred): return next(c for c in cs if pred(c))
# the former witnesses of the four repaired classes (they must now satisfy the oracle) and other directed cases
picks = [
 ("w_K1_literal_backslash", first(lambda c: c["kind"] == "directed-K1-literal-backslash")),
 ("w_K1_param_backslash", first(lambda c: c["kind"] == "directed-K1-param-backslash-literal-filter")),
 ("w_K1_unicode_escape", first(lambda c: c["kind"] == "directed-K1-literal-unicode-escape")),
 ("w_surrogate_pair", first(lambda c: c["kind"] == "directed-literal-surrogate-pair")),
 ("w_lone_surrogate", first(lambda c: c["kind"] == "directed-literal-lone-high-surrogate")),
 ("w_K2_default_quote", first(lambda c: c["kind"] == "default" and c["meta"]["default"] == "it's")),
 ("w_K2_default_injection", first(lambda c: c["kind"] == "default" and c["meta"]["default"] == "' OR '1'='1")),
 ("w_K3_capture", first(lambda c: c["kind"] == "shape" and '"dd"' in c["meta"]["query"] and "$dd" in c["meta"]["query"])),
 ("w_K4_float_display", first(lambda c: c["kind"].startswith("float") and c["meta"]["value"] == "8.407903850944054e17")),
 ("w_ok_escaped_quote", first(lambda c: c["kind"] == "directed-literal-escaped-quote-ok")),
 ("w_ok_param_sql", first(lambda c: c["kind"] == "directed-param-sql")),
 # Json / Base64 fields: an assignment replaces the stored value
 ("w_json_object_over_object", first(lambda c: c["kind"] == "directed-json-object-over-object")),
 ("w_json_null_member", first(lambda c: c["kind"] == "directed-json-null-member")),
 ("w_json_empty_over_object", first(lambda c: c["kind"] == "directed-json-empty-object-over-object")),
 ("w_json_array_over_object", first(lambda c: c["kind"] == "directed-json-array-over-object")),
 ("w_json_null_over_object", first(lambda c: c["kind"] == "directed-json-null-over-object")),
 ("w_json_over_default", first(lambda c: c["kind"] == "directed-json-over-default")),
 ("w_json_null_refused", first(lambda c: c["kind"] == "directed-json-null-refused")),
 ("w_b64_empty", first(lambda c: c["kind"] == "base64" and c["meta"]["text"] == "")),
 ("w_b64_noncanonical", first(lambda c: c["kind"] == "base64" and c["meta"]["text"] == "AB")),
 ("w_b64_padded", first(lambda c: c["kind"] == "base64" and c["meta"]["text"] == "AA==")),
 ("w_b64_urlsafe", first(lambda c: c["kind"] == "base64" and c["meta"]["text"] == "-_8")),
 # aliases and search terms
 ("w_alias_keyword", first(lambda c: c["kind"] == "alias" and c["meta"]["alias"] == "select")),
 ("w_alias_dquote", first(lambda c: c["kind"] == "alias" and c["meta"]["alias"] == 'a"b')),
 ("w_alias_space", first(lambda c: c["kind"] == "alias" and c["meta"]["alias"] == 'a b')),
 ("w_K6_json_default", first(lambda c: c["kind"] == "directed-json-default-old-row")),
 ("w_upd_2p53", first(lambda c: c["kind"] == "directed-update-int-above-2p53")),
 ("w_svc_multiline", first(lambda c: c["kind"] == "directed-service-multiline-literal")),
 ("w_search_plain", first(lambda c: c["kind"] == "search" and c["meta"]["term"] == "hello")),
]
# open class 5 (the term reaches FTS5 as a query expression)
refuted = [
 ("w_K5_search_quote", first(lambda c: c["kind"] == "search" and c["meta"]["term"] == 'hello"'), "[5]"),
 ("w_K5_search_column", first(lambda c: c["kind"] == "search" and c["meta"]["term"] == 'name:hello'), "[5]"),
]
out = ["(* C04Wit.v — closed witnesses: directed cases of harness/src/bin/c04.rs as Gallina terms, the model's verdict",
       "   checked by vm_compute.  The same cases are replayed on the real code on every run.",
       "   (snapshot of the harness output; regenerate with tools/c04_genwit.py if the directed cases change) *)",
       "From DV Require Import Run_C04.", "Open Scope Z_scope.", ""]
for name, c in picks:
    out.append("(* %s : %s *)" % (c["kind"], json.dumps(c["meta"], ensure_ascii=True)[:300].replace("(*", "( *").replace("*)", "* )").replace('"', "'")))
    out.append("Definition %s : c04case := %s." % (name, c["coq"]))
    out.append("Lemma %s_holds : spec_C04 %s (run_C04 %s) = true /\\ known_C04 %s = []." % (name, name, name, name))
    out.append("Proof. vm_compute. split; reflexivity. Qed.")
    out.append("")
for name, c, cls in refuted:
    out.append("(* %s : %s *)" % (c["kind"], json.dumps(c["meta"], ensure_ascii=True)[:300].replace("(*", "( *").replace("*)", "* )").replace('"', "'")))
    out.append("Definition %s : c04case := %s." % (name, c["coq"]))
    out.append("Lemma %s_refuted : spec_C04 %s (run_C04 %s) = false /\\ known_C04 %s = %s." % (name, name, name, name, cls))
    out.append("Proof. vm_compute. split; reflexivity. Qed.")
    out.append("")
open(os.path.join(ROOT, "coq/proofs/C04Wit.v"), "w").write("\n".join(out))
