#!/bin/bash
# usage: tools/test_seed.sh <seed dir name under seeded/> <property id> [more property ids]
# applies seeded/<name>/patch.diff to a scratch worktree of /repo HEAD (never to /repo itself),
# runs the checks against it with ./chk --repo, prints the verdict lines, removes the worktree.
S=$1; shift
exec 9>/tmp/ts_seed.lock; flock 9   # one seed test at a time (they share one scratch target directory)
export CHK_ALT_NAME=seedtest
WT=/tmp/ts_work
git -C /repo worktree remove --force $WT 2>/dev/null
git -C /repo worktree add -q $WT HEAD || exit 2
if ! git -C $WT apply /verif/seeded/$S/patch.diff 2>/dev/null; then
  if ! git -C $WT apply -3 /verif/seeded/$S/patch.diff; then echo "PATCH-DOES-NOT-APPLY $S"; git -C /repo worktree remove --force $WT; exit 3; fi
fi
for P in "$@"; do
  echo "== seed $S vs check $P"
  (cd /verif && ./chk check $P --repo $WT 2>&1 | grep -v "^KNOWN-FINDING\|^note:" | tail -4 | cut -c1-400)
done
git -C /repo worktree remove --force $WT
